/-
Helper lemmas for C06: what the tally of one proposal (`tallyOne`, one entry of the active queue of
the gov `EndBlocker`) does to the sanction status of an address — the address named by the passed
proposal (last message naming it wins) and every address the tallied proposal does not name.
-/
import PvProofs.Lemmas.SancRefuse

namespace PvProofs.Sanc
open PvModel PvModel.Sanc PvModel.Sanc.Spec

/-! ### the status of an address depends on its own entries only -/

theorem getLatest_congr {t t' : List TempEntry} {a : Addr} (hu : KeysUnique t) (hu' : KeysUnique t')
    (h : ∀ e, e.addr = a → (e ∈ t ↔ e ∈ t')) : getLatestTempEntry t' a = getLatestTempEntry t a := by
  cases hl : getLatestTempEntry t a with
  | none =>
    have hn := getLatest_eq_none.1 hl
    apply getLatest_eq_none.2
    intro e he hea
    exact hn e ((h e hea).2 he) hea
  | some v =>
    obtain ⟨p, hm, hmax⟩ := (getLatest_eq_some hu).1 hl
    apply (getLatest_eq_some hu').2
    exact ⟨p, (h _ rfl).1 hm, fun e he hea => hmax e ((h e hea).2 he) hea⟩

theorem isSanctioned_congr {c : Cfg} {st st' : Store} {a : Addr} (hu : KeysUnique st.temp)
    (hu' : KeysUnique st'.temp) (hp : a ∈ st'.perm ↔ a ∈ st.perm)
    (h : ∀ e, e.addr = a → (e ∈ st.temp ↔ e ∈ st'.temp)) :
    isSanctionedAddr c st' a = isSanctionedAddr c st a := by
  unfold isSanctionedAddr
  rw [getLatest_congr hu hu' h]
  split_ifs
  · rfl
  · cases getLatestTempEntry st.temp a with
    | none => simp only [decide_eq_decide]; exact hp
    | some v => cases v <;> rfl

/-! ### one message of a passed proposal -/

theorem perm_sanctionAddresses {c : Cfg} {st st' : Store} {addrs : List Addr}
    (hs : sanctionAddresses c st addrs = .ok st') :
    (∀ a ∈ addrs, a ∉ c.unsanctionable) ∧ ∀ x, x ∈ st'.perm ↔ x ∈ st.perm ∨ x ∈ addrs := by
  unfold sanctionAddresses at hs
  cases hl : sanctionLoop c st.perm addrs with
  | error e => simp [hl] at hs
  | ok perm =>
    simp only [hl, Except.ok.injEq] at hs
    subst hs
    exact sanctionLoop_ok hl

/-- `MsgSanction` / `MsgUnsanction` as executed for a passed proposal: every (non-empty) address it
names ends up sanctioned / not sanctioned, whatever temporary entries existed -/
theorem msgSanction_named {c : Cfg} {st st' : Store} {m : PMsg} {a : Addr}
    (hs : msgSanction c st m = .ok st') (ha : a ∈ m.addrs) (hne : a ≠ "") :
    isSanctionedAddr c st' a = m.isSanction := by
  unfold msgSanction at hs
  split_ifs at hs with h1 h2 h3
  · have hnt : NoTemp st'.temp a := fun e he hea => (temp_sanctionAddresses hs he).2 ⟨hea ▸ hne, hea ▸ ha⟩
    obtain ⟨k1, k2⟩ := perm_sanctionAddresses hs
    have h0 : ¬(a = "" ∨ a ∈ c.unsanctionable) := by
      rintro (h | h)
      · exact hne h
      · exact k1 a ha h
    unfold isSanctionedAddr
    simp only [h0, if_false, getLatest_eq_none.2 hnt, (k2 a).2 (Or.inr ha), decide_true, h3]
  · simp only [Except.ok.injEq] at hs
    subst hs
    have hnt : NoTemp (unsanctionAddresses st m.addrs).temp a :=
      fun e he hea => (temp_unsanctionAddresses he).2 ⟨hea ▸ hne, hea ▸ ha⟩
    have hperm : a ∉ (unsanctionAddresses st m.addrs).perm := by
      intro hm
      have : a ∈ st.perm.filter (fun x => decide (x ∉ m.addrs)) := hm
      simp only [List.mem_filter, decide_eq_true_eq] at this
      exact this.2 ha
    have h3' : m.isSanction = false := by simpa using h3
    unfold isSanctionedAddr
    split_ifs
    · exact h3'.symm
    · simp only [getLatest_eq_none.2 hnt, hperm, decide_false, h3']

/-- … and an address it does not name keeps its status -/
theorem msgSanction_other {c : Cfg} {st st' : Store} {m : PMsg} {a : Addr} (h : StoreOK c st)
    (hs : msgSanction c st m = .ok st') (ha : a ∉ m.addrs) :
    isSanctionedAddr c st' a = isSanctionedAddr c st a := by
  have h' := (msgSanction_ok h hs).1
  apply isSanctioned_congr h.unique h'.unique
  · unfold msgSanction at hs
    split_ifs at hs with h1 h2 h3
    · rw [(perm_sanctionAddresses hs).2 a]
      exact ⟨fun hh => hh.resolve_right ha, Or.inl⟩
    · simp only [Except.ok.injEq] at hs
      subst hs
      show a ∈ st.perm.filter (fun x => decide (x ∉ m.addrs)) ↔ a ∈ st.perm
      simp only [List.mem_filter, decide_eq_true_eq]
      exact ⟨fun hh => hh.1, fun hh => ⟨hh, ha⟩⟩
  · intro e hea
    unfold msgSanction at hs
    split_ifs at hs with h1 h2 h3
    · unfold sanctionAddresses at hs
      cases hl : sanctionLoop c st.perm m.addrs with
      | error e => simp [hl] at hs
      | ok perm =>
        simp only [hl, Except.ok.injEq] at hs
        subst hs
        rw [mem_deleteAddr]
        exact ⟨fun he => ⟨he, fun hh => ha (hea ▸ hh.2)⟩, fun hh => hh.1⟩
    · simp only [Except.ok.injEq] at hs
      subst hs
      unfold unsanctionAddresses
      rw [mem_deleteAddr]
      exact ⟨fun he => ⟨he, fun hh => ha (hea ▸ hh.2)⟩, fun hh => hh.1⟩

theorem execMsgs_other {c : Cfg} {msgs : List PMsg} {st st' : Store} {a : Addr} (h : StoreOK c st)
    (hs : execMsgs c st msgs = .ok st') (ha : ∀ m ∈ msgs, a ∉ m.addrs) :
    isSanctionedAddr c st' a = isSanctionedAddr c st a := by
  induction msgs generalizing st with
  | nil => simp only [execMsgs, Except.ok.injEq] at hs; subst hs; rfl
  | cons m rest ih =>
    simp only [execMsgs] at hs
    cases hm : msgSanction c st m with
    | error e => simp [hm] at hs
    | ok st1 =>
      simp only [hm] at hs
      rw [ih (msgSanction_ok h hm).1 hs (fun m' hm' => ha m' (List.mem_cons_of_mem _ hm')),
        msgSanction_other h hm (ha m List.mem_cons_self)]

theorem lastNaming_none {a : Addr} {msgs : List PMsg} (h : lastNaming a msgs = none) : ∀ m ∈ msgs, a ∉ m.addrs := by
  induction msgs with
  | nil => intro m hm; cases hm
  | cons x rest ih =>
    unfold lastNaming at h ih
    simp only [lastReached] at h
    cases hr : lastReached (fun _ => true) a rest with
    | some v => simp [hr] at h
    | none =>
      simp only [hr, Bool.true_and] at h
      have hx : a ∉ x.addrs := by
        intro hh
        simp [hh] at h
      intro m hm
      rcases List.mem_cons.1 hm with rfl | hm
      · exact hx
      · exact ih hr m hm

theorem lastNaming_some_mem {a : Addr} {msgs : List PMsg} {v : Bool} (h : lastNaming a msgs = some v) :
    a ∈ msgs.flatMap (·.addrs) := by
  induction msgs generalizing v with
  | nil => cases h
  | cons x rest ih =>
    unfold lastNaming at h ih
    simp only [lastReached] at h
    simp only [List.flatMap_cons, List.mem_append]
    cases hr : lastReached (fun _ => true) a rest with
    | some w => exact Or.inr (ih hr)
    | none =>
      simp only [hr, Bool.true_and] at h
      by_cases hh : a ∈ x.addrs
      · exact Or.inl hh
      · simp [hh] at h

/-- the messages of a passed proposal, executed in order: for every address, the last message
naming it decides -/
theorem execMsgs_effect {c : Cfg} {msgs : List PMsg} {st st' : Store} {a : Addr} {v : Bool} (h : StoreOK c st)
    (hne : a ≠ "") (hs : execMsgs c st msgs = .ok st') (hl : lastNaming a msgs = some v) :
    isSanctionedAddr c st' a = v := by
  induction msgs generalizing st with
  | nil => cases hl
  | cons m rest ih =>
    simp only [execMsgs] at hs
    cases hm : msgSanction c st m with
    | error e => simp [hm] at hs
    | ok st1 =>
      simp only [hm] at hs
      have h1 := (msgSanction_ok h hm).1
      unfold lastNaming at hl ih
      simp only [lastReached] at hl
      cases hr : lastReached (fun _ => true) a rest with
      | some w =>
        simp only [hr, Option.some.injEq] at hl
        subst hl
        exact ih h1 hs hr
      | none =>
        simp only [hr, Bool.true_and] at hl
        by_cases hh : a ∈ m.addrs
        · simp only [hh, decide_true, if_true, Option.some.injEq] at hl
          rw [execMsgs_other h1 hs (lastNaming_none hr), msgSanction_named hm hh hne]
          exact hl
        · simp [hh] at hl

/-! ### the gov hook and an address the proposal does not name -/

theorem hookMsgs_other {c : Cfg} {total : Coins} {id : Nat} {msgs : List PMsg} {st st' : Store} {a : Addr}
    (h : StoreOK c st) (hne : ∀ m ∈ msgs, ∀ x ∈ m.addrs, x ≠ "") (ha : ∀ m ∈ msgs, a ∉ m.addrs)
    (hs : hookMsgs c total id st msgs = .ok st') :
    isSanctionedAddr c st' a = isSanctionedAddr c st a := by
  induction msgs generalizing st with
  | nil => simp only [hookMsgs, Except.ok.injEq] at hs; subst hs; rfl
  | cons m rest ih =>
    simp only [hookMsgs] at hs
    cases hm : hookMsg c total id st m with
    | error e => simp [hm] at hs
    | ok st1 =>
      simp only [hm] at hs
      have key : StoreOK c st1 ∧ isSanctionedAddr c st1 a = isSanctionedAddr c st a := by
        have hk : st1 = st ∨ addTempEntries c m.isSanction id st m.addrs = .ok st1 := by
          unfold hookMsg at hm
          cases hadd : addTempEntries c m.isSanction id st m.addrs <;> rw [hadd] at hm <;>
            split_ifs at hm <;> simp_all
        rcases hk with rfl | hadd
        · exact ⟨h, rfl⟩
        · obtain ⟨k1, k2, _, _, k5, _, k7⟩ := addTempEntries_ok h (hne m List.mem_cons_self) hadd
          refine ⟨k1, isSanctioned_congr h.unique k1.unique (by rw [k2]) ?_⟩
          intro e hea
          have hnot : e.addr ∉ m.addrs := hea ▸ ha m List.mem_cons_self
          constructor
          · intro he; exact k7 e he (fun hh => hnot hh.2)
          · intro he
            rcases k5 e he with h0 | ⟨_, hmem, _⟩
            · exact h0
            · exact absurd hmem hnot
      rw [ih key.1 (fun m' hm' => hne m' (List.mem_cons_of_mem _ hm'))
        (fun m' hm' => ha m' (List.mem_cons_of_mem _ hm')) hs, key.2]

/-- `proposalGovHook` for a proposal that does not name `a`, when no temporary entry of `a` belongs
to that proposal: `a` keeps its status -/
theorem hook_other {c : Cfg} {st st' : Store} {p : Proposal} {id : Nat} {a : Addr} (h : StoreOK c st)
    (hne : ∀ m ∈ p.msgs, ∀ x ∈ m.addrs, x ≠ "") (ha : ∀ m ∈ p.msgs, a ∉ m.addrs)
    (hown : ∀ e ∈ st.temp, e.addr = a → e.id ≠ id)
    (hs : proposalGovHook c st (some p) id = .ok st') :
    isSanctionedAddr c st' a = isSanctionedAddr c st a := by
  have hdel : isSanctionedAddr c (deleteGovPropTempEntries st id) a = isSanctionedAddr c st a := by
    apply isSanctioned_congr h.unique (storeOK_deleteGovProp h id).unique (by rfl)
    intro e hea
    rw [mem_deleteGovProp h.mirror]
    exact ⟨fun he => ⟨he, hown e he hea⟩, fun hh => hh.1⟩
  unfold proposalGovHook at hs
  cases hst : p.status <;> simp only [hst] at hs
  case deposit => exact hookMsgs_other h hne ha hs
  case voting => exact hookMsgs_other h hne ha hs
  case passed => simp only [Except.ok.injEq] at hs; subst hs; rfl
  case rejected => simp only [Except.ok.injEq] at hs; subst hs; exact hdel
  case failed => simp only [Except.ok.injEq] at hs; subst hs; exact hdel

/-! ### one entry of the active queue -/

theorem getProp_setProp {ps : List Proposal} {id : Nat} {p q : Proposal} (hg : getProp ps id = some p)
    (hq : q.id = id) : getProp (setProp ps q) id = some q := by
  unfold getProp setProp at *
  rw [List.find?_map]
  have hf : ((fun p => decide (p.id = id)) ∘ fun x => if x.id = q.id then q else x) = fun p => decide (p.id = id) := by
    funext x
    simp only [Function.comp]
    by_cases hx : x.id = q.id
    · simp [hx, hq]
    · simp [hx]
  rw [hf, hg]
  have hp : p.id = q.id := by
    have := List.find?_some hg
    simp only [decide_eq_true_eq] at this
    omega
  simp [hp]

theorem getProp_setProp_ne {ps : List Proposal} {id : Nat} {q : Proposal} (hq : q.id ≠ id) :
    getProp (setProp ps q) id = getProp ps id := by
  unfold getProp setProp
  induction ps with
  | nil => rfl
  | cons x rest ih =>
    simp only [List.map_cons, List.find?_cons]
    by_cases hx : x.id = q.id
    · have h1 : ¬ q.id = id := hq
      have h2 : ¬ x.id = id := by omega
      simp only [hx, if_true, h1, decide_false]
      exact ih
    · simp only [hx, if_false]
      by_cases h2 : x.id = id
      · simp [h2]
      · simp only [h2, decide_false]
        exact ih

/-- the shape of a successful `tallyOne` of a stored proposal -/
theorem tallyOne_shape {s s' : State} {id : Nat} {p : Proposal} (hs : tallyOne s id = .ok s')
    (hg : getProp s.props id = some p) :
    ∃ l st, s' = { s with ledger := l, props := setProp s.props (tallyOutcome s.cfg s.st p (tally s.cfg p.vote).1).1,
                          st := st } ∧
      proposalGovHook s.cfg (tallyOutcome s.cfg s.st p (tally s.cfg p.vote).1).2
        (some (tallyOutcome s.cfg s.st p (tally s.cfg p.vote).1).1) id = .ok st := by
  unfold tallyOne at hs
  simp only [hg] at hs
  cases hse : settleTally s p with
  | error e => simp [hse] at hs
  | ok s1 =>
    simp only [hse] at hs
    obtain ⟨l, rfl⟩ := settleTally_ledger hse
    simp only at hs
    cases hh : proposalGovHook s.cfg (tallyOutcome s.cfg s.st p (tally s.cfg p.vote).1).2
        (some (tallyOutcome s.cfg s.st p (tally s.cfg p.vote).1).1) id with
    | ok st =>
      simp only [hh, Except.ok.injEq] at hs
      exact ⟨l, st, hs.symm, rfl⟩
    | error e =>
      have := hook_error hh
      subst this
      simp [hh] at hs

/-- the outcomes of a tally -/
theorem tallyOutcome_cases (c : Cfg) (st : Store) (p : Proposal) (passes : Bool) :
    (tallyOutcome c st p passes).1.id = p.id ∧ (tallyOutcome c st p passes).1.msgs = p.msgs ∧
      ((passes = true ∧ execMsgs c st p.msgs = .ok (tallyOutcome c st p passes).2 ∧
          (tallyOutcome c st p passes).1.status = .passed) ∨
       ((tallyOutcome c st p passes).2 = st ∧
          ((tallyOutcome c st p passes).1.status = .failed ∨ (tallyOutcome c st p passes).1.status = .rejected ∨
           (tallyOutcome c st p passes).1.status = p.status))) := by
  cases passes with
  | true =>
    cases he : execMsgs c st p.msgs with
    | ok st' => simp [tallyOutcome, he]
    | error e => simp [tallyOutcome, he]
  | false =>
    cases hexp : p.expedited with
    | true => simp [tallyOutcome, hexp]
    | false => simp [tallyOutcome, hexp]

/-- **A passed proposal takes effect.**  When the tally of proposal `id` (not yet passed) leaves it
passed, every address its messages name has afterwards the status the last message naming it
gives it. -/
theorem tallyOne_passed_effect {s s' : State} {id : Nat} {p q : Proposal} {a : Addr} {v : Bool} (hi : Inv s)
    (hs : tallyOne s id = .ok s') (hg : getProp s.props id = some p) (hnp : p.status ≠ .passed)
    (hg' : getProp s'.props id = some q) (hq : q.status = .passed) (hl : lastNaming a p.msgs = some v) :
    isSanctionedAddr s'.cfg s'.st a = v := by
  obtain ⟨l, st, rfl, hh⟩ := tallyOne_shape hs hg
  obtain ⟨hp, hpid⟩ := getProp_some hg
  obtain ⟨o1, o2, o3⟩ := tallyOutcome_cases s.cfg s.st p (tally s.cfg p.vote).1
  generalize tallyOutcome s.cfg s.st p (tally s.cfg p.vote).1 = o at hh hg' o1 o2 o3
  have hqo : q = o.1 := by
    have := getProp_setProp (q := o.1) hg (o1.trans hpid)
    simp only at hg'
    rw [this] at hg'
    exact (Option.some.inj hg').symm
  subst hqo
  have hane : a ≠ "" := by
    have hm := lastNaming_some_mem hl
    obtain ⟨m, hm1, hm2⟩ := List.mem_flatMap.1 hm
    exact hi.msgsOk p hp m hm1 a hm2
  rcases o3 with ⟨_, he, _⟩ | ⟨_, hst⟩
  · -- passed: the hook does nothing
    unfold proposalGovHook at hh
    simp only [hq, Except.ok.injEq] at hh
    subst hh
    exact execMsgs_effect hi.store hane he hl
  · rcases hst with hst | hst | hst
    · rw [hq] at hst; cases hst
    · rw [hq] at hst; cases hst
    · exact absurd (hst.symm.trans hq) hnp

/-- The tally of a proposal leaves the status of every address it does not name as it was. -/
theorem tallyOne_other {s s' : State} {x : Nat} {a : Addr} (hi : Inv s) (hs : tallyOne s x = .ok s')
    (ha : ∀ p, getProp s.props x = some p → a ∉ p.allAddrs) :
    isSanctionedAddr s'.cfg s'.st a = isSanctionedAddr s.cfg s.st a := by
  cases hg : getProp s.props x with
  | none =>
    unfold tallyOne at hs
    simp only [hg, Except.ok.injEq] at hs
    subst hs; rfl
  | some p =>
    obtain ⟨l, st, rfl, hh⟩ := tallyOne_shape hs hg
    obtain ⟨hp, hpid⟩ := getProp_some hg
    have hnot : ∀ m ∈ p.msgs, a ∉ m.addrs := by
      intro m hm hmem
      exact ha p hg (List.mem_flatMap.2 ⟨m, hm, hmem⟩)
    obtain ⟨o1, o2, o3⟩ := tallyOutcome_cases s.cfg s.st p (tally s.cfg p.vote).1
    obtain ⟨_, _, _, o4, _⟩ := tallyOutcome_spec p (tally s.cfg p.vote).1 hi.store
    generalize tallyOutcome s.cfg s.st p (tally s.cfg p.vote).1 = o at hh o1 o2 o3 o4
    show isSanctionedAddr s.cfg st a = isSanctionedAddr s.cfg s.st a
    have hmsgs : ∀ m ∈ o.1.msgs, ∀ y ∈ m.addrs, y ≠ "" := o2 ▸ hi.msgsOk p hp
    rcases o3 with ⟨_, he, hst⟩ | ⟨h2, _⟩
    · unfold proposalGovHook at hh
      simp only [hst, Except.ok.injEq] at hh
      subst hh
      exact execMsgs_other hi.store he hnot
    · rw [h2] at hh
      apply hook_other hi.store hmsgs (o2 ▸ hnot) ?_ hh
      intro e he hea hid
      rcases hi.live e he with ⟨q, hq, hqid, _, hqm⟩ | hc
      · have : q = p := eq_of_mem_of_id hi.idsNodup hq hp (by omega)
        subst this
        exact ha q hg (hea ▸ hqm)
      · exact (hi.cancelledOk e.id hc).2 p hp (by omega)

/-! ### the whole end-blocker: queue order, expiries first, then the tallies -/

theorem insertQ_perm (x : Nat × Nat) : ∀ l : List (Nat × Nat), (insertQ x l).Perm (x :: l)
  | [] => List.Perm.refl _
  | y :: r => by
    simp only [insertQ]
    split_ifs
    · exact List.Perm.refl _
    · exact ((insertQ_perm x r).cons y).trans (List.Perm.swap x y r)

theorem sortQ_perm (l : List (Nat × Nat)) : (sortQ l).Perm l := by
  induction l with
  | nil => exact List.Perm.refl _
  | cons x r ih =>
    show (insertQ x (sortQ r)).Perm (x :: r)
    exact (insertQ_perm x (sortQ r)).trans (ih.cons x)

theorem activeIds_perm (s : State) :
    (activeIds s).Perm ((s.props.filter fun p => p.status = .voting &&
        (match p.votingEnd with | some e => decide (e ≤ s.now) | none => false)).map (·.id)) := by
  unfold activeIds
  have := (sortQ_perm ((s.props.filter fun p => p.status = .voting &&
        (match p.votingEnd with | some e => decide (e ≤ s.now) | none => false)).map
      fun p => (p.votingEnd.getD 0, p.id))).map (·.2)
  rw [List.map_map] at this
  exact this

theorem inactiveIds_perm (s : State) :
    (inactiveIds s).Perm ((s.props.filter fun p => p.status = .deposit && decide (p.depositEnd ≤ s.now)).map (·.id)) := by
  unfold inactiveIds
  have := (sortQ_perm ((s.props.filter fun p => p.status = .deposit && decide (p.depositEnd ≤ s.now)).map
      fun p => (p.depositEnd, p.id))).map (·.2)
  rw [List.map_map] at this
  exact this

theorem mem_activeIds {s : State} {x : Nat} (h : x ∈ activeIds s) : ∃ q ∈ s.props, q.id = x ∧ q.status = .voting := by
  have := (activeIds_perm s).mem_iff.1 h
  obtain ⟨q, hq, rfl⟩ := List.mem_map.1 this
  simp only [List.mem_filter, Bool.and_eq_true, decide_eq_true_eq] at hq
  exact ⟨q, hq.1, rfl, hq.2.1⟩

theorem mem_inactiveIds {s : State} {x : Nat} (h : x ∈ inactiveIds s) : ∃ q ∈ s.props, q.id = x ∧ q.status = .deposit := by
  have := (inactiveIds_perm s).mem_iff.1 h
  obtain ⟨q, hq, rfl⟩ := List.mem_map.1 this
  simp only [List.mem_filter, Bool.and_eq_true, decide_eq_true_eq] at hq
  exact ⟨q, hq.1, rfl, hq.2.1⟩

theorem nodup_activeIds {s : State} (h : (s.props.map (·.id)).Nodup) : (activeIds s).Nodup :=
  (activeIds_perm s).nodup_iff.2 (List.Nodup.sublist (List.Sublist.map _ List.filter_sublist) h)

theorem getProp_delProp_ne {ps : List Proposal} {x id : Nat} (h : x ≠ id) :
    getProp (delProp ps x) id = getProp ps id := by
  unfold getProp delProp
  rw [List.find?_filter]
  congr 1
  funext q
  by_cases h2 : q.id = id
  · have h3 : ¬ q.id = x := by omega
    simp [h3]
  · simp [h2]

theorem expireOne_props {s s' : State} {x : Nat} (hs : expireOne s x = .ok s') :
    s'.props = s.props ∨ s'.props = delProp s.props x := by
  unfold expireOne at hs
  cases hg : getProp s.props x with
  | none => simp only [hg, Except.ok.injEq] at hs; subst hs; exact Or.inl rfl
  | some p =>
    simp only [hg] at hs
    cases hse : settle { s with props := delProp s.props x } s.cfg.burnPrevote p.deposits with
    | error e => simp [hse] at hs
    | ok s2 =>
      simp only [hse] at hs
      obtain ⟨l, rfl⟩ := settle_ok hse
      simp only [getProp_delProp] at hs
      have hh : proposalGovHook s.cfg s.st none x = .ok (deleteGovPropTempEntries s.st x) := rfl
      simp only [hh, Except.ok.injEq] at hs
      subst hs
      exact Or.inr rfl

/-- the expiries of a block leave the proposals that are not in the inactive queue as they are -/
theorem foldR_expire_keeps {xs : List Nat} {s s' : State} {id : Nat} (hi : Inv s)
    (hs : foldR expireOne s xs = .ok s') (hne : ∀ x ∈ xs, x ≠ id) :
    Inv s' ∧ s'.cfg = s.cfg ∧ getProp s'.props id = getProp s.props id ∧ ∀ q ∈ s'.props, q ∈ s.props := by
  induction xs generalizing s with
  | nil => simp only [foldR, Except.ok.injEq] at hs; subst hs; exact ⟨hi, rfl, rfl, fun q hq => hq⟩
  | cons x rest ih =>
    simp only [foldR] at hs
    cases hx : expireOne s x with
    | error e => simp [hx] at hs
    | ok s1 =>
      simp only [hx] at hs
      obtain ⟨i1, c1, _⟩ := expireOne_inv hi hx
      obtain ⟨k1, k2, k3, k4⟩ := ih i1 hs (fun y hy => hne y (List.mem_cons_of_mem _ hy))
      have hxid : x ≠ id := hne x List.mem_cons_self
      refine ⟨k1, k2.trans c1, ?_, ?_⟩
      · rw [k3]
        rcases expireOne_props hx with h | h <;> rw [h]
        exact getProp_delProp_ne hxid
      · intro q hq
        have := k4 q hq
        rcases expireOne_props hx with h | h <;> rw [h] at this
        · exact this
        · exact (mem_delProp.1 this).1

/-- what the tally of `y` does to the other stored proposals: nothing; to `y`: same id, same messages -/
theorem tallyOne_props {s s' : State} {y x : Nat} {q : Proposal} (hs : tallyOne s y = .ok s')
    (hq : getProp s'.props x = some q) :
    (getProp s.props x = some q) ∨ (x = y ∧ ∃ p, getProp s.props y = some p ∧ q.id = p.id ∧ q.msgs = p.msgs) := by
  cases hg : getProp s.props y with
  | none =>
    unfold tallyOne at hs
    simp only [hg, Except.ok.injEq] at hs
    subst hs
    exact Or.inl hq
  | some p =>
    obtain ⟨l, st, rfl, _⟩ := tallyOne_shape hs hg
    obtain ⟨_, hpid⟩ := getProp_some hg
    obtain ⟨o1, o2, _⟩ := tallyOutcome_cases s.cfg s.st p (tally s.cfg p.vote).1
    simp only at hq
    by_cases hxy : x = y
    · subst hxy
      rw [getProp_setProp hg (o1.trans hpid)] at hq
      have := Option.some.inj hq
      subst this
      exact Or.inr ⟨rfl, p, rfl, o1, o2⟩
    · rw [getProp_setProp_ne (by rw [o1, hpid]; exact fun h => hxy h.symm)] at hq
      exact Or.inl hq

/-- tallies of proposals that do not name `a` leave its status alone -/
theorem foldR_tally_other {ids : List Nat} {s s' : State} {a : Addr} (hi : Inv s)
    (hs : foldR tallyOne s ids = .ok s')
    (hq : ∀ x ∈ ids, ∀ q, getProp s.props x = some q → a ∉ q.allAddrs) :
    isSanctionedAddr s'.cfg s'.st a = isSanctionedAddr s.cfg s.st a := by
  induction ids generalizing s with
  | nil => simp only [foldR, Except.ok.injEq] at hs; subst hs; rfl
  | cons y rest ih =>
    simp only [foldR] at hs
    cases hy : tallyOne s y with
    | error e => simp [hy] at hs
    | ok s1 =>
      simp only [hy] at hs
      obtain ⟨i1, _, _⟩ := tallyOne_inv hi hy
      rw [ih i1 hs ?_, tallyOne_other hi hy (hq y List.mem_cons_self)]
      intro x hx q hgq
      rcases tallyOne_props hy hgq with h | ⟨rfl, p, hp, _, hm⟩
      · exact hq x (List.mem_cons_of_mem _ hx) q h
      · rw [allAddrs_of_msgs hm]
        exact hq x List.mem_cons_self p hp

/-- the tallies of a block, when one of them makes proposal `id` pass and no other tallied
proposal names `a` -/
theorem foldR_tally_passed {ids : List Nat} {s s' : State} {id : Nat} {p q : Proposal} {a : Addr} {v : Bool}
    (hi : Inv s) (hs : foldR tallyOne s ids = .ok s') (hnd : ids.Nodup)
    (hg : getProp s.props id = some p) (hnp : p.status ≠ .passed) (hl : lastNaming a p.msgs = some v)
    (hg' : getProp s'.props id = some q) (hq : q.status = .passed)
    (hoth : ∀ x ∈ ids, x ≠ id → ∀ r, getProp s.props x = some r → a ∉ r.allAddrs) :
    isSanctionedAddr s'.cfg s'.st a = v := by
  induction ids generalizing s p with
  | nil =>
    simp only [foldR, Except.ok.injEq] at hs
    subst hs
    rw [hg] at hg'
    exact absurd ((Option.some.inj hg') ▸ hq) hnp
  | cons y rest ih =>
    simp only [foldR] at hs
    cases hy : tallyOne s y with
    | error e => simp [hy] at hs
    | ok s1 =>
      simp only [hy] at hs
      obtain ⟨i1, _, _⟩ := tallyOne_inv hi hy
      have hnd' : rest.Nodup := (List.nodup_cons.1 hnd).2
      have hoth' : ∀ x ∈ rest, x ≠ id → ∀ r, getProp s1.props x = some r → a ∉ r.allAddrs := by
        intro x hx hxid r hgr
        rcases tallyOne_props hy hgr with h | ⟨rfl, p0, hp0, _, hm⟩
        · exact hoth x (List.mem_cons_of_mem _ hx) hxid r h
        · rw [allAddrs_of_msgs hm]
          exact hoth x List.mem_cons_self hxid p0 hp0
      by_cases hyid : y = id
      · subst hyid
        have hnin : y ∉ rest := (List.nodup_cons.1 hnd).1
        -- the proposal after its tally
        obtain ⟨l, st, hs1, _⟩ := tallyOne_shape hy hg
        obtain ⟨_, hpid⟩ := getProp_some hg
        obtain ⟨o1, o2, _⟩ := tallyOutcome_cases s.cfg s.st p (tally s.cfg p.vote).1
        have hg1 : getProp s1.props y = some (tallyOutcome s.cfg s.st p (tally s.cfg p.vote).1).1 := by
          rw [hs1]; exact getProp_setProp hg (o1.trans hpid)
        by_cases hpass : (tallyOutcome s.cfg s.st p (tally s.cfg p.vote).1).1.status = .passed
        · have e1 := tallyOne_passed_effect hi hy hg hnp hg1 hpass hl
          rw [foldR_tally_other i1 hs ?_, e1]
          intro x hx r hgr
          exact hoth' x hx (fun h => hnin (h ▸ hx)) r hgr
        · exact ih i1 hs hnd' hg1 hpass (by rw [o2]; exact hl) hoth'
      · have hg1 : getProp s1.props id = some p := by
          cases hgy : getProp s.props y with
          | none =>
            unfold tallyOne at hy
            simp only [hgy, Except.ok.injEq] at hy
            subst hy; exact hg
          | some py =>
            obtain ⟨l, st, hs1, _⟩ := tallyOne_shape hy hgy
            obtain ⟨_, hpyid⟩ := getProp_some hgy
            obtain ⟨o1, _, _⟩ := tallyOutcome_cases s.cfg s.st py (tally s.cfg py.vote).1
            rw [hs1]
            show getProp (setProp s.props _) id = some p
            rw [getProp_setProp_ne (by rw [o1, hpyid]; exact hyid)]
            exact hg
        exact ih i1 hs hnd' hg1 hnp hl hoth'

/-- **A passed proposal takes effect, through the gov `EndBlocker`.**  From a state satisfying the
invariant: when the end-blocker leaves proposal `id` — stored and not passed before — passed, every
address its messages name has, at the end of the block, the status the last message naming it
gives it, provided no other proposal in its voting period names that address (such a proposal can be
tallied later in the same block and act on the address in its turn). -/
theorem endBlocker_passed_effect {s s' : State} {id : Nat} {p q : Proposal} {a : Addr} {v : Bool} (hi : Inv s)
    (hs : endBlocker s = .ok s') (hg : getProp s.props id = some p) (hv : p.status = .voting)
    (hl : lastNaming a p.msgs = some v) (hg' : getProp s'.props id = some q) (hq : q.status = .passed)
    (hoth : ∀ r ∈ s.props, r.id ≠ id → r.status = .voting → a ∉ r.allAddrs) :
    isSanctionedAddr s'.cfg s'.st a = v := by
  unfold endBlocker at hs
  obtain ⟨hp, hpid⟩ := getProp_some hg
  cases h1 : foldR expireOne s (inactiveIds s) with
  | error e => simp [h1] at hs
  | ok s1 =>
    simp only [h1] at hs
    have hne : ∀ x ∈ inactiveIds s, x ≠ id := by
      intro x hx hxid
      obtain ⟨r, hr, hrid, hrs⟩ := mem_inactiveIds hx
      have : r = p := eq_of_mem_of_id hi.idsNodup hr hp (by omega)
      subst this
      rw [hv] at hrs; cases hrs
    obtain ⟨i1, _, k3, k4⟩ := foldR_expire_keeps hi h1 hne
    apply foldR_tally_passed i1 hs (nodup_activeIds i1.idsNodup) (k3.trans hg) (by rw [hv]; decide) hl hg' hq
    intro x hx hxid r hgr
    obtain ⟨r', hr', hrid', hrs'⟩ := mem_activeIds hx
    obtain ⟨hr, hrid⟩ := getProp_some hgr
    have : r' = r := eq_of_mem_of_id i1.idsNodup hr' hr (by omega)
    subst this
    exact hoth r' (k4 r' hr') (by omega) hrs'

end PvProofs.Sanc
