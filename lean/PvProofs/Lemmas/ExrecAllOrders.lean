/-
Helper lemmas for C13: `GetAllOrders` — the SDK's `FilteredPaginate` over the order records, whose
filter (`parseKeyOrder` succeeds) is true of every record of a store satisfying the invariant.
-/
import PvProofs.Lemmas.ExrecListing

namespace PvProofs.Exrec
open PvModel.Exrec PvProofs.C13

theorem sdkKeyLoop_congr {hit hit' : Entry → Bool} (limit : Nat) : ∀ (L : List Entry) (n : Nat) (acc : List Entry),
    (∀ e ∈ L, hit e = hit' e) → sdkKeyLoop hit limit L n acc = sdkKeyLoop hit' limit L n acc
  | [], _, _, _ => rfl
  | e :: r, n, acc, h => by
    unfold sdkKeyLoop
    rw [h e (List.mem_cons_self ..)]
    have hr : ∀ x ∈ r, hit x = hit' x := fun x hx => h x (List.mem_cons_of_mem _ hx)
    rw [sdkKeyLoop_congr limit r (n + 1) (acc ++ [e]) hr, sdkKeyLoop_congr limit r n acc hr]

theorem offLoop_congr {hit hit' : Entry → Bool} (offset stop : Nat) (ct : Bool) :
    ∀ (L : List Entry) (n : Nat) (acc : List Entry) (nk : Option Bytes),
    (∀ e ∈ L, hit e = hit' e) → offLoop hit offset stop ct L n acc nk = offLoop hit' offset stop ct L n acc nk
  | [], _, _, _, _ => rfl
  | e :: r, n, acc, nk, h => by
    unfold offLoop
    rw [h e (List.mem_cons_self ..)]
    have hr : ∀ x ∈ r, hit x = hit' x := fun x hx => h x (List.mem_cons_of_mem _ hx)
    simp only [offLoop_congr offset stop ct r _ _ _ hr]

theorem sdkGetIterator_sub {ps : List Entry} {key : Option Bytes} {rev : Bool} {it : List Entry}
    (h : sdkGetIterator ps key rev = .ok it) : ∀ e ∈ it, e ∈ ps := by
  unfold sdkGetIterator at h
  split_ifs at h
  · split at h
    · cases h
    · cases h
      intro e he
      unfold revIter iter at he
      exact (List.mem_filter.mp (List.mem_reverse.mp he)).1
  · cases h
    intro e he
    unfold iter at he
    exact (List.mem_filter.mp he).1

theorem sdkFilteredPaginate_congr {hit hit' : Entry → Bool} (ps : List Entry) (req : PageReq)
    (h : ∀ e ∈ ps, hit e = hit' e) : sdkFilteredPaginate ps req hit = sdkFilteredPaginate ps req hit' := by
  unfold sdkFilteredPaginate
  simp only
  split <;>
  · split
    · rfl
    · split
      · rfl
      · next it hIt =>
        have hsub : ∀ e ∈ it, hit e = hit' e := fun e he => h e (sdkGetIterator_sub hIt e he)
        simp only [sdkKeyLoop_congr _ it _ _ hsub, offLoop_congr _ _ _ it _ _ _ hsub]

/-- every entry under the order prefix is the record of a live order, keyed by its 8 id bytes -/
theorem allScan_entry {s : Store} (hinv : IndexInv s) {e : Entry} (he : e ∈ prefixStore s prefixOrder) :
    ∃ o, s.get (keyOrder o.id) = some (.order o) ∧ e = (u64Bz o.id, .order o) := by
  have hg := (mem_prefixStore s prefixOrder e).mp he
  have hk : prefixOrder ++ e.1 = 2 :: e.1 := rfl
  rw [hk] at hg
  obtain ⟨id, o, hr, hv, hid⟩ := hinv.order_key _ _ hg
  subst hid
  refine ⟨o, ?_, Prod.ext hr hv⟩
  rw [hr] at hg; rw [hv] at hg
  exact hg

theorem parseKeyOrder_u64Bz (id : UInt64) : parseKeyOrder (u64Bz id) = some id := by
  unfold parseKeyOrder
  have := u64FromBz_u64Bz id []
  simp only [List.append_nil] at this
  simp [u64Bz_length, this]

/-- the order a record entry stands for (`GetAllOrders` grpc_query.go:194-205) -/
def recOf (e : Entry) : Option Order :=
  match parseKeyOrder e.1, e.2 with
  | some id, .order o => some { o with id := id }
  | _, _ => none

def recsToOrders (acc : List Entry) : List Order := acc.filterMap recOf

theorem recsToOrders_append (a b : List Entry) : recsToOrders (a ++ b) = recsToOrders a ++ recsToOrders b := by
  unfold recsToOrders; rw [List.filterMap_append]

theorem recOf_entry (o : Order) : recOf (u64Bz o.id, .order o) = some o := by
  unfold recOf
  simp only [parseKeyOrder_u64Bz]

/-- `GetAllOrders`, for a request a client following the pages sends (no key, or a non-empty one) -/
theorem getAllOrders_eq {s : Store} (hinv : IndexInv s) (req : PageReq) (hk : req.key ≠ some []) :
    getAllOrders s req =
      mapPage recsToOrders (filteredPaginateAfterOrder (prefixStore s prefixOrder) req 0 (fun _ => true)) := by
  unfold getAllOrders
  rw [sdkFilteredPaginate_congr (hit' := fun _ => true) _ req (fun e he => by
    obtain ⟨o, _, rfl⟩ := allScan_entry hinv he
    simp [parseKeyOrder_u64Bz]), sdkFilteredPaginate_all_eq _ req hk]
  unfold mapPage
  cases filteredPaginateAfterOrder (prefixStore s prefixOrder) req 0 (fun _ => true) with
  | error e => rfl
  | ok pr => obtain ⟨acc, resp⟩ := pr; rfl

theorem followKeys_congr {α : Type} {page page' : PageReq → Except PErr (List α × PageResp)}
    (h : ∀ req : PageReq, req.key ≠ some [] → page req = page' req) (limit : Nat) (rev : Bool) :
    ∀ (fuel : Nat) (key : Option Bytes), key ≠ some [] →
      followKeys page limit rev fuel key = followKeys page' limit rev fuel key := by
  intro fuel
  induction fuel with
  | zero => intro _ _; rfl
  | succ fuel ih =>
    intro key hkey
    unfold followKeys
    rw [h { key := key, limit := limit, reverse := rev } hkey]
    cases page' { key := key, limit := limit, reverse := rev } with
    | error e => rfl
    | ok pr =>
      obtain ⟨acc, nk, t⟩ := pr
      cases nk with
      | none => rfl
      | some k =>
        cases k with
        | nil => rfl
        | cons b r => simp only; rw [ih (some (b :: r)) (by simp)]

theorem followOffsets_congr {α : Type} {page page' : PageReq → Except PErr (List α × PageResp)}
    (h : ∀ req : PageReq, req.key ≠ some [] → page req = page' req) (limit : Nat) (rev : Bool) :
    ∀ (fuel offset : Nat), followOffsets page limit rev fuel offset = followOffsets page' limit rev fuel offset := by
  intro fuel
  induction fuel with
  | zero => intro _; rfl
  | succ fuel ih =>
    intro offset
    unfold followOffsets
    rw [h { offset := offset, limit := limit, reverse := rev } (by simp)]
    cases page' { offset := offset, limit := limit, reverse := rev } with
    | error e => rfl
    | ok pr =>
      obtain ⟨acc, nk, t⟩ := pr
      cases nk with
      | none => rfl
      | some k =>
        cases k with
        | nil => rfl
        | cons b r => simp only; rw [ih]

theorem firstIter_zero (ps : List Entry) (rev : Bool) : firstIter ps rev 0 = if rev then ps.reverse else ps := by
  unfold firstIter lowerBound iter
  cases rev <;> simp [inRange]

/-- **the order records in key order, as orders, are `specOrders … .all`** -/
theorem allListing_eq_spec {s : Store} (hinv : IndexInv s) (hnd : KeysNodup s) (rev : Bool) :
    recsToOrders (firstIter (prefixStore s prefixOrder) rev 0) = specOrders s .all none 0 rev := by
  have hfwd : recsToOrders (prefixStore s prefixOrder) = specOrders s .all none 0 false := by
    refine eq_of_pairwise_of_mem_iff (fun a b : Order => a.id < b.id) ?_ ?_ _ _ ?_
      (specOrders_pairwise hinv hnd .all none 0) (fun o => ?_)
    · intro a b h1 h2
      rw [UInt64.lt_iff_toNat_lt] at h1 h2; omega
    · intro a h
      rw [UInt64.lt_iff_toNat_lt] at h; omega
    · unfold recsToOrders
      refine List.Pairwise.filterMap _ ?_ (List.Pairwise.and_mem.mp (sorted_prefixStore s prefixOrder))
      intro a a' ⟨ha, ha', hlt⟩ o ho o' ho'
      obtain ⟨oa, _, rfl⟩ := allScan_entry hinv ha
      obtain ⟨ob, _, rfl⟩ := allScan_entry hinv ha'
      rw [recOf_entry] at ho ho'
      cases ho; cases ho'
      exact (u64Bz_lt_iff _ _).mp hlt
    · rw [mem_specOrders hinv hnd]
      unfold recsToOrders
      rw [List.mem_filterMap]
      constructor
      · rintro ⟨e, he, hto⟩
        obtain ⟨o', ho', rfl⟩ := allScan_entry hinv he
        rw [recOf_entry] at hto; cases hto
        exact ⟨ho', rfl, by simp, Or.inl rfl⟩
      · rintro ⟨ho, _⟩
        refine ⟨(u64Bz o.id, .order o), ?_, recOf_entry o⟩
        rw [mem_prefixStore]
        exact ho
  rw [firstIter_zero]
  cases rev with
  | false => exact hfwd
  | true =>
    rw [specOrders_rev, ← hfwd]
    unfold recsToOrders
    simp only [↓reduceIte, List.filterMap_reverse]

end PvProofs.Exrec
