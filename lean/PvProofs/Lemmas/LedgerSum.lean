/-
Helper lemmas on the shared `Ledger` (PvModel/Coins.lean): total supply is the sum of the
balances of the accounts; with non-negative balances two distinct accounts never hold more
than the supply.
-/
import PvModel.Coins

namespace PvProofs.LedgerSum
open PvModel PvModel.Ledger

/-- the ledger without the entries of account `a` -/
def without (l : Ledger) (a : Addr) : Ledger := l.filter fun e => e.addr ≠ a

theorem supply_split (l : Ledger) (a : Addr) (d : Denom) :
    supply l d = bal l a d + supply (without l a) d := by
  induction l with
  | nil => simp [without]
  | cons e t ih =>
    unfold without at *
    by_cases ha : e.addr = a
    · simp [List.filter, supply, bal, ha, ih]; split <;> omega
    · simp [List.filter, supply, bal, ha, ih]; omega

theorem bal_without (l : Ledger) (a c : Addr) (d : Denom) :
    bal (without l a) c d = if c = a then 0 else bal l c d := by
  induction l with
  | nil => simp [without]
  | cons e t ih =>
    unfold without at *
    by_cases ha : e.addr = a
    · simp only [List.filter, ha, ne_eq, not_true_eq_false, decide_false, bal]
      rw [ih]
      by_cases hc : c = a
      · simp [hc]
      · have : ¬ (a = c) := fun h => hc h.symm
        simp [hc, this]
    · simp only [List.filter, ha, ne_eq, not_false_eq_true, decide_true, bal]
      rw [ih]
      by_cases hc : c = a
      · have : ¬ (e.addr = c) := by rw [hc]; exact ha
        simp [hc, ha]
      · simp [hc]

theorem length_without_le (l : Ledger) (a : Addr) : (without l a).length ≤ l.length := by
  unfold without; exact List.length_filter_le _ _

/-- non-negative balances -/
def NonNegL (l : Ledger) : Prop := ∀ a d, 0 ≤ bal l a d

theorem nonNeg_without {l : Ledger} (h : NonNegL l) (a : Addr) : NonNegL (without l a) := by
  intro c d
  rw [bal_without]
  split
  · omega
  · exact h c d

theorem supply_nonneg_aux (n : Nat) : ∀ (l : Ledger), l.length ≤ n → NonNegL l → ∀ d, 0 ≤ supply l d := by
  induction n with
  | zero =>
    intro l hl _ d
    have : l = [] := List.eq_nil_of_length_eq_zero (by omega)
    subst this; simp
  | succ n ih =>
    intro l hl hn d
    match l, hl, hn with
    | [], _, _ => simp
    | e :: t, hl, hn =>
      rw [supply_split (e :: t) e.addr d]
      have h1 := hn e.addr d
      have hlen : (without (e :: t) e.addr).length ≤ n := by
        have : without (e :: t) e.addr = without t e.addr := by simp [without, List.filter]
        rw [this]
        have := length_without_le t e.addr
        simp at hl; omega
      have h2 := ih _ hlen (nonNeg_without hn e.addr) d
      omega

/-- With non-negative balances the total supply is non-negative. -/
theorem supply_nonneg {l : Ledger} (h : NonNegL l) (d : Denom) : 0 ≤ supply l d :=
  supply_nonneg_aux l.length l (Nat.le_refl _) h d

/-- With non-negative balances two distinct accounts never hold more than the supply. -/
theorem bal_add_bal_le_supply {l : Ledger} (h : NonNegL l) {a b : Addr} (hab : a ≠ b) (d : Denom) :
    bal l a d + bal l b d ≤ supply l d := by
  rw [supply_split l a d, supply_split (without l a) b d, bal_without]
  have h3 := supply_nonneg (nonNeg_without (nonNeg_without h a) b) d
  have : ¬ (b = a) := fun h => hab h.symm
  simp only [this, if_false]
  omega

/-- a single account never holds more than the supply -/
theorem bal_le_supply {l : Ledger} (h : NonNegL l) (a : Addr) (d : Denom) : bal l a d ≤ supply l d := by
  rw [supply_split l a d]
  have := supply_nonneg (nonNeg_without h a) d
  omega

/-- If one account holds the whole supply, every other account holds nothing. -/
theorem others_zero_of_holds_all {l : Ledger} (h : NonNegL l) {a : Addr} {d : Denom}
    (hall : supply l d ≤ bal l a d) : ∀ c, c ≠ a → bal l c d = 0 := by
  intro c hc
  have h1 := bal_add_bal_le_supply h hc d
  have h2 := h c d
  omega

def sumBal (l : Ledger) (d : Denom) : List Addr → Int
  | [] => 0
  | a :: rest => bal l a d + sumBal l d rest

/-- **bank supply = Σ balances**: for any duplicate-free list of accounts that covers every
account appearing in the ledger, the supply of `d` is the sum of their balances. -/
theorem supply_eq_sumBal (d : Denom) : ∀ (as : List Addr) (l : Ledger), as.Nodup →
    (∀ e ∈ l, e.addr ∈ as) → supply l d = sumBal l d as := by
  intro as
  induction as with
  | nil =>
    intro l _ hcov
    have : l = [] := by
      cases l with
      | nil => rfl
      | cons e t => exact absurd (hcov e (by simp)) (by simp)
    subst this; simp [sumBal]
  | cons a rest ih =>
    intro l hnd hcov
    have hnd' := List.nodup_cons.mp hnd
    rw [supply_split l a d]
    have hcov' : ∀ e ∈ without l a, e.addr ∈ rest := by
      intro e he
      have he' := List.mem_filter.mp he
      have h1 := hcov e he'.1
      have h2 : e.addr ≠ a := by simpa using he'.2
      rcases List.mem_cons.mp h1 with h | h
      · exact absurd h h2
      · exact h
    rw [ih (without l a) hnd'.2 hcov']
    have : ∀ (xs : List Addr), a ∉ xs → sumBal (without l a) d xs = sumBal l d xs := by
      intro xs
      induction xs with
      | nil => intro _; rfl
      | cons x xs ihx =>
        intro hx
        have hxa : x ≠ a := fun h => hx (by simp [h])
        have hxs : a ∉ xs := fun h => hx (by simp [h])
        simp only [sumBal, bal_without, hxa, if_false, ihx hxs]
    rw [this rest hnd'.1]
    simp [sumBal]

end PvProofs.LedgerSum
