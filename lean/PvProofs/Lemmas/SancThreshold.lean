/-
Helper lemmas for C06 about the immediate (temporary) entries and the deposit threshold:
the gov hook creates an entry only for a message whose immediate min deposit is reached by the
proposal's total deposit — every denom of it —, it creates all of those, and along a whole
operation (the end-blocker included) a new entry always has such a proposal behind it.
-/
import PvProofs.Lemmas.SancBal

namespace PvProofs.Sanc
open PvModel PvModel.Sanc PvModel.Sanc.Spec

/-! ### the threshold test -/

theorem isZero_eq_false_iff {m : Coins} :
    Coins.isZero m = false ↔ ∃ d ∈ Coins.denoms m, Coins.amountOf m d ≠ 0 := by
  unfold Coins.isZero
  constructor
  · intro h
    apply Classical.byContradiction
    intro hno
    have hall : ((Coins.denoms m).all fun d => decide (Coins.amountOf m d = 0)) = true := by
      simp only [List.all_eq_true, decide_eq_true_eq]
      intro d hd
      apply Classical.byContradiction
      intro hne
      exact hno ⟨d, hd, hne⟩
    rw [hall] at h; cases h
  · rintro ⟨d, hd, hne⟩
    cases hb : (Coins.denoms m).all fun d => decide (Coins.amountOf m d = 0) with
    | false => rfl
    | true =>
      simp only [List.all_eq_true, decide_eq_true_eq] at hb
      exact absurd (hb d hd) hne

/-- the test of the model (`!IsZero` and `SafeSub` without a negative coin) is the documented
rule: the parameter is not zero and every denom of it is reached -/
theorem reachesMin_iff (total m : Coins) : Sanc.reachesMin total m = true ↔ Reaches total m := by
  unfold Sanc.reachesMin Reaches
  simp only [Bool.and_eq_true, Bool.not_eq_true', isZero_eq_false_iff, Coins.covers, List.all_eq_true,
    decide_eq_true_eq]

/-- the function the run-time checker evaluates on a dump is the same rule -/
theorem reaches_iff (total m : Coins) : Spec.reaches total m = true ↔ Reaches total m := by
  unfold Spec.reaches Reaches
  simp only [Bool.and_eq_true, List.any_eq_true, List.all_eq_true, decide_eq_true_eq]

theorem reaches_eq_reachesMin (total m : Coins) : Spec.reaches total m = Sanc.reachesMin total m := by
  cases h1 : Spec.reaches total m <;> cases h2 : Sanc.reachesMin total m <;> try rfl
  · exact absurd ((reaches_iff total m).2 ((reachesMin_iff total m).1 h2)) (by simp [h1])
  · exact absurd ((reachesMin_iff total m).2 ((reaches_iff total m).1 h1)) (by simp [h2])

/-! ### one message, all messages -/

/-- the two outcomes of `hookMsg` -/
theorem hookMsg_cases {c : Cfg} {total : Coins} {id : Nat} {st st1 : Store} {m : PMsg}
    (hm : hookMsg c total id st m = .ok st1) :
    (Sanc.reachesMin total (immediateMin st m.isSanction) = false ∧ st1 = st) ∨
    (Sanc.reachesMin total (immediateMin st m.isSanction) = true ∧
      addTempEntries c m.isSanction id st m.addrs = .ok st1) := by
  unfold hookMsg at hm
  split_ifs at hm with hr
  · cases ha : addTempEntries c m.isSanction id st m.addrs with
    | error e => simp [ha] at hm
    | ok st2 =>
      simp only [ha, Except.ok.injEq] at hm
      exact Or.inr ⟨hr, hm ▸ rfl⟩
  · simp only [Except.ok.injEq] at hm
    exact Or.inl ⟨by simpa using hr, hm.symm⟩

theorem immediateMin_congr {st st' : Store} (h1 : st'.sancMin = st.sancMin) (h2 : st'.unsancMin = st.unsancMin)
    (b : Bool) : immediateMin st' b = immediateMin st b := by
  unfold immediateMin; rw [h1, h2]

/-- Every entry after the hook's loop is old, or is the entry of a message of the proposal whose
immediate min deposit the total deposit reaches; the parameters are not touched. -/
theorem hookMsgs_new {c : Cfg} {total : Coins} {id : Nat} {msgs : List PMsg} {st st' : Store}
    (h : StoreOK c st) (hne : ∀ m ∈ msgs, ∀ a ∈ m.addrs, a ≠ "")
    (hs : hookMsgs c total id st msgs = .ok st') :
    st'.sancMin = st.sancMin ∧ st'.unsancMin = st.unsancMin ∧
      ∀ e ∈ st'.temp, e ∈ st.temp ∨ (e.id = id ∧ ∃ m ∈ msgs, m.isSanction = e.val ∧ e.addr ∈ m.addrs ∧
        Sanc.reachesMin total (immediateMin st m.isSanction) = true) := by
  induction msgs generalizing st with
  | nil =>
    simp only [hookMsgs, Except.ok.injEq] at hs
    subst hs
    exact ⟨rfl, rfl, fun e he => Or.inl he⟩
  | cons m rest ih =>
    simp only [hookMsgs] at hs
    cases hm : hookMsg c total id st m with
    | error e => simp [hm] at hs
    | ok st1 =>
      simp only [hm] at hs
      have hne' : ∀ m' ∈ rest, ∀ a ∈ m'.addrs, a ≠ "" := fun m' hm' => hne m' (List.mem_cons_of_mem _ hm')
      rcases hookMsg_cases hm with ⟨_, rfl⟩ | ⟨hr, ha⟩
      · obtain ⟨j1, j2, j3⟩ := ih h hne' hs
        refine ⟨j1, j2, fun e he => ?_⟩
        rcases j3 e he with he | ⟨hid, m', hm', hx⟩
        · exact Or.inl he
        · exact Or.inr ⟨hid, m', List.mem_cons_of_mem _ hm', hx⟩
      · obtain ⟨k1, _, k3, k4, k5, _, _⟩ := addTempEntries_ok h (hne m List.mem_cons_self) ha
        obtain ⟨j1, j2, j3⟩ := ih k1 hne' hs
        refine ⟨j1.trans k3, j2.trans k4, fun e he => ?_⟩
        rcases j3 e he with he | ⟨hid, m', hm', hv, hmem, hr'⟩
        · rcases k5 e he with he | ⟨hid, hmem, hv⟩
          · exact Or.inl he
          · exact Or.inr ⟨hid, m, List.mem_cons_self, hv.symm, hmem, hr⟩
        · refine Or.inr ⟨hid, m', List.mem_cons_of_mem _ hm', hv, hmem, ?_⟩
          rw [← immediateMin_congr k3 k4]; exact hr'

/-- `lastReached … = none` for a list: no reached message names the address -/
theorem lastReached_none_cons {reached : PMsg → Bool} {a : Addr} {m : PMsg} {rest : List PMsg}
    (h : lastReached reached a (m :: rest) = none) :
    lastReached reached a rest = none ∧ ¬(reached m = true ∧ a ∈ m.addrs) := by
  simp only [lastReached] at h
  cases hr : lastReached reached a rest with
  | some v => simp [hr] at h
  | none =>
    simp only [hr] at h
    refine ⟨rfl, ?_⟩
    rintro ⟨h1, h2⟩
    rw [if_pos (by simp [h1, h2])] at h
    cases h

/-- the entries of an address no reached message names are kept by the loop -/
theorem hookMsgs_keeps {c : Cfg} {total : Coins} {id : Nat} {msgs : List PMsg} {st st' : Store} {sm um : Coins}
    (h : StoreOK c st) (hne : ∀ m ∈ msgs, ∀ a ∈ m.addrs, a ≠ "")
    (h1 : st.sancMin = sm) (h2 : st.unsancMin = um)
    (hs : hookMsgs c total id st msgs = .ok st') {a : Addr}
    (hn : lastReached (fun m => Sanc.reachesMin total (if m.isSanction then sm else um)) a msgs = none) :
    ∀ e ∈ st.temp, e.addr = a → e ∈ st'.temp := by
  induction msgs generalizing st with
  | nil =>
    simp only [hookMsgs, Except.ok.injEq] at hs
    subst hs
    exact fun e he _ => he
  | cons m rest ih =>
    simp only [hookMsgs] at hs
    cases hm : hookMsg c total id st m with
    | error e => simp [hm] at hs
    | ok st1 =>
      simp only [hm] at hs
      have hne' : ∀ m' ∈ rest, ∀ a ∈ m'.addrs, a ≠ "" := fun m' hm' => hne m' (List.mem_cons_of_mem _ hm')
      obtain ⟨hn1, hn2⟩ := lastReached_none_cons hn
      rcases hookMsg_cases hm with ⟨_, rfl⟩ | ⟨hr, ha⟩
      · exact ih h hne' h1 h2 hs hn1
      · obtain ⟨k1, _, k3, k4, _, _, k7⟩ := addTempEntries_ok h (hne m List.mem_cons_self) ha
        intro e he hea
        apply ih k1 hne' (k3.trans h1) (k4.trans h2) hs hn1 e _ hea
        apply k7 e he
        rintro ⟨_, hmem⟩
        apply hn2
        refine ⟨?_, hea ▸ hmem⟩
        have : immediateMin st m.isSanction = (if m.isSanction then sm else um) := by
          unfold immediateMin; rw [h1, h2]
        rw [← this]; exact hr

/-- Every address named by a message whose threshold is reached has, after the loop, the entry
of the last such message. -/
theorem hookMsgs_present {c : Cfg} {total : Coins} {id : Nat} {msgs : List PMsg} {st st' : Store} {sm um : Coins}
    (h : StoreOK c st) (hne : ∀ m ∈ msgs, ∀ a ∈ m.addrs, a ≠ "")
    (h1 : st.sancMin = sm) (h2 : st.unsancMin = um)
    (hs : hookMsgs c total id st msgs = .ok st') {a : Addr} {v : Bool}
    (hl : lastReached (fun m => Sanc.reachesMin total (if m.isSanction then sm else um)) a msgs = some v) :
    (⟨a, id, v⟩ : TempEntry) ∈ st'.temp := by
  induction msgs generalizing st with
  | nil => simp [lastReached] at hl
  | cons m rest ih =>
    simp only [hookMsgs] at hs
    cases hm : hookMsg c total id st m with
    | error e => simp [hm] at hs
    | ok st1 =>
      simp only [hm] at hs
      have hne' : ∀ m' ∈ rest, ∀ a ∈ m'.addrs, a ≠ "" := fun m' hm' => hne m' (List.mem_cons_of_mem _ hm')
      have hst1 : StoreOK c st1 ∧ st1.sancMin = sm ∧ st1.unsancMin = um := by
        rcases hookMsg_cases hm with ⟨_, rfl⟩ | ⟨_, ha⟩
        · exact ⟨h, h1, h2⟩
        · obtain ⟨k1, _, k3, k4, _⟩ := addTempEntries_ok h (hne m List.mem_cons_self) ha
          exact ⟨k1, k3.trans h1, k4.trans h2⟩
      simp only [lastReached] at hl
      cases hr : lastReached (fun m => Sanc.reachesMin total (if m.isSanction then sm else um)) a rest with
      | some w =>
        simp only [hr, Option.some.injEq] at hl
        subst hl
        exact ih hst1.1 hne' hst1.2.1 hst1.2.2 hs hr
      | none =>
        simp only [hr] at hl
        by_cases hc : (Sanc.reachesMin total (if m.isSanction then sm else um) && decide (a ∈ m.addrs)) = true
        · rw [if_pos hc] at hl
          simp only [Option.some.injEq] at hl
          subst hl
          simp only [Bool.and_eq_true, decide_eq_true_eq] at hc
          have himm : immediateMin st m.isSanction = (if m.isSanction then sm else um) := by
            unfold immediateMin; rw [h1, h2]
          rcases hookMsg_cases hm with ⟨hf, _⟩ | ⟨_, ha⟩
          · rw [himm, hc.1] at hf; cases hf
          · obtain ⟨_, _, _, _, _, k6, _⟩ := addTempEntries_ok h (hne m List.mem_cons_self) ha
            exact hookMsgs_keeps hst1.1 hne' hst1.2.1 hst1.2.2 hs hr _ (k6 a hc.2) rfl
        · rw [if_neg hc] at hl; cases hl

/-! ### the hook -/

/-- What `proposalGovHook` may add: only entries of messages of an active proposal whose
threshold the proposal's total deposit reaches. -/
theorem hook_new {c : Cfg} {st st' : Store} {prop : Option Proposal} {id : Nat}
    (h : StoreOK c st) (hne : ∀ p, prop = some p → ∀ m ∈ p.msgs, ∀ a ∈ m.addrs, a ≠ "")
    (hs : proposalGovHook c st prop id = .ok st') :
    st'.sancMin = st.sancMin ∧ st'.unsancMin = st.unsancMin ∧
      ∀ e ∈ st'.temp, e ∈ st.temp ∨ (e.id = id ∧ ∃ p, prop = some p ∧ p.active = true ∧
        ∃ m ∈ p.msgs, m.isSanction = e.val ∧ e.addr ∈ m.addrs ∧
          Sanc.reachesMin p.total (immediateMin st m.isSanction) = true) := by
  unfold proposalGovHook at hs
  have hdel : ∀ i, (deleteGovPropTempEntries st i).sancMin = st.sancMin ∧
      (deleteGovPropTempEntries st i).unsancMin = st.unsancMin ∧
      ∀ e ∈ (deleteGovPropTempEntries st i).temp, e ∈ st.temp :=
    fun i => ⟨rfl, rfl, fun e he => ((mem_deleteGovProp h.mirror).1 he).1⟩
  cases prop with
  | none =>
    simp only [Except.ok.injEq] at hs
    subst hs
    exact ⟨rfl, rfl, fun e he => Or.inl ((hdel id).2.2 e he)⟩
  | some p =>
    simp only at hs
    cases hst : p.status <;> simp only [hst] at hs
    case passed =>
      simp only [Except.ok.injEq] at hs
      subst hs
      exact ⟨rfl, rfl, fun e he => Or.inl he⟩
    case rejected =>
      simp only [Except.ok.injEq] at hs
      subst hs
      exact ⟨rfl, rfl, fun e he => Or.inl ((hdel id).2.2 e he)⟩
    case failed =>
      simp only [Except.ok.injEq] at hs
      subst hs
      exact ⟨rfl, rfl, fun e he => Or.inl ((hdel id).2.2 e he)⟩
    case deposit =>
      obtain ⟨k1, k2, k3⟩ := hookMsgs_new h (hne p rfl) hs
      refine ⟨k1, k2, fun e he => (k3 e he).imp (fun x => x) fun x => ⟨x.1, p, rfl, ?_, x.2⟩⟩
      simp [Proposal.active, hst]
    case voting =>
      obtain ⟨k1, k2, k3⟩ := hookMsgs_new h (hne p rfl) hs
      refine ⟨k1, k2, fun e he => (k3 e he).imp (fun x => x) fun x => ⟨x.1, p, rfl, ?_, x.2⟩⟩
      simp [Proposal.active, hst]

/-- What `proposalGovHook` must add for a proposal in its deposit or voting period. -/
theorem hook_present {c : Cfg} {st st' : Store} {p : Proposal} {id : Nat}
    (h : StoreOK c st) (hne : ∀ m ∈ p.msgs, ∀ a ∈ m.addrs, a ≠ "") (hact : p.active = true)
    (hs : proposalGovHook c st (some p) id = .ok st') {a : Addr} {v : Bool}
    (hl : lastReached (fun m => Sanc.reachesMin p.total (immediateMin st m.isSanction)) a p.msgs = some v) :
    (⟨a, id, v⟩ : TempEntry) ∈ st'.temp := by
  unfold proposalGovHook at hs
  simp only at hs
  have hl' : lastReached (fun m => Sanc.reachesMin p.total (if m.isSanction then st.sancMin else st.unsancMin))
      a p.msgs = some v := hl
  cases hst : p.status <;> simp only [hst] at hs
  case deposit => exact hookMsgs_present h hne rfl rfl hs hl'
  case voting => exact hookMsgs_present h hne rfl rfl hs hl'
  all_goals simp [Proposal.active, hst] at hact

/-! ### whole operations -/

/-- a new temporary entry of `s'` (relative to `s`) has an active proposal behind it whose
total deposit reaches the immediate minimum of the entry's kind; parameters untouched -/
def NewOK (s s' : State) : Prop :=
  s'.st.sancMin = s.st.sancMin ∧ s'.st.unsancMin = s.st.unsancMin ∧
    ∀ e ∈ s'.st.temp, e ∈ s.st.temp ∨
      ∃ p ∈ s'.props, p.id = e.id ∧ p.active = true ∧ Sanc.reachesMin p.total (immediateMin s'.st e.val) = true

/-- the proposals of `s'` are proposals of `s` with the same total deposit -/
def PropsFrame (s s' : State) : Prop := ∀ q ∈ s'.props, ∃ p ∈ s.props, p.id = q.id ∧ p.total = q.total

theorem newOK_refl (s : State) : NewOK s s := ⟨rfl, rfl, fun _ he => Or.inl he⟩

theorem newOK_trans {s s1 s2 : State} (i1 : Inv s1) (i2 : Inv s2) (hc : s2.cancelled = s1.cancelled)
    (a : NewOK s s1) (b : NewOK s1 s2) (f : PropsFrame s1 s2) : NewOK s s2 := by
  obtain ⟨a1, a2, a3⟩ := a
  obtain ⟨b1, b2, b3⟩ := b
  refine ⟨b1.trans a1, b2.trans a2, fun e he => ?_⟩
  rcases b3 e he with he1 | hj
  · rcases a3 e he1 with he0 | ⟨p, hp, hpid, _, hpr⟩
    · exact Or.inl he0
    · right
      rcases i2.live e he with ⟨q, hq, hqid, hqa, _⟩ | hcan
      · obtain ⟨p0, hp0, hid0, htot0⟩ := f q hq
        have : p0 = p := eq_of_mem_of_id i1.idsNodup hp0 hp (by omega)
        subst this
        refine ⟨q, hq, hqid, hqa, ?_⟩
        rw [← htot0, immediateMin_congr b1 b2]
        exact hpr
      · rw [hc] at hcan
        exact absurd hpid ((i1.cancelledOk e.id hcan).2 p hp)
  · exact Or.inr hj

theorem foldR_newOK {α : Type} {f : State → α → R State}
    (hf : ∀ s x s', Inv s → f s x = .ok s' → Inv s' ∧ s'.cfg = s.cfg ∧ s'.cancelled = s.cancelled)
    (hn : ∀ s x s', Inv s → f s x = .ok s' → NewOK s s' ∧ PropsFrame s s')
    (xs : List α) {s s' : State} (h : Inv s) (hs : foldR f s xs = .ok s') :
    NewOK s s' ∧ PropsFrame s s' := by
  induction xs generalizing s with
  | nil =>
    simp only [foldR, Except.ok.injEq] at hs
    subst hs
    exact ⟨newOK_refl s, fun q hq => ⟨q, hq, rfl, rfl⟩⟩
  | cons x rest ih =>
    simp only [foldR] at hs
    cases hx : f s x with
    | error e => simp [hx] at hs
    | ok s1 =>
      simp only [hx] at hs
      obtain ⟨k1, _, _⟩ := hf s x s1 h hx
      obtain ⟨n1, f1⟩ := hn s x s1 h hx
      obtain ⟨n2, f2⟩ := ih k1 hs
      obtain ⟨j1, _, j3⟩ := foldR_inv hf rest k1 hs
      refine ⟨newOK_trans k1 j1 j3 n1 n2 f2, fun q hq => ?_⟩
      obtain ⟨p1, hp1, hid1, ht1⟩ := f2 q hq
      obtain ⟨p0, hp0, hid0, ht0⟩ := f1 p1 hp1
      exact ⟨p0, hp0, hid0.trans hid1, ht0.trans ht1⟩

theorem expireOne_newOK {s s' : State} {id : Nat} (h : Inv s) (hs : expireOne s id = .ok s') :
    NewOK s s' ∧ PropsFrame s s' := by
  unfold expireOne at hs
  cases hg : getProp s.props id with
  | none =>
    simp only [hg, Except.ok.injEq] at hs; subst hs
    exact ⟨newOK_refl s, fun q hq => ⟨q, hq, rfl, rfl⟩⟩
  | some p =>
    simp only [hg] at hs
    cases hse : settle { s with props := delProp s.props id } s.cfg.burnPrevote p.deposits with
    | error e => simp [hse] at hs
    | ok s2 =>
      simp only [hse] at hs
      obtain ⟨l, rfl⟩ := settle_ok hse
      simp only [getProp_delProp] at hs
      have hh : proposalGovHook s.cfg s.st none id = .ok (deleteGovPropTempEntries s.st id) := rfl
      simp only [hh, Except.ok.injEq] at hs
      subst hs
      refine ⟨⟨rfl, rfl, fun e he => Or.inl ((mem_deleteGovProp h.store.mirror).1 he).1⟩, fun q hq => ?_⟩
      exact ⟨q, (mem_delProp.1 hq).1, rfl, rfl⟩

theorem msgSanction_params {c : Cfg} {st st' : Store} {m : PMsg} (hs : msgSanction c st m = .ok st') :
    st'.sancMin = st.sancMin ∧ st'.unsancMin = st.unsancMin := by
  unfold msgSanction at hs
  split_ifs at hs
  · unfold sanctionAddresses at hs
    cases hl : sanctionLoop c st.perm m.addrs with
    | error e => simp [hl] at hs
    | ok perm =>
      simp only [hl, Except.ok.injEq] at hs
      subst hs
      exact ⟨rfl, rfl⟩
  · simp only [Except.ok.injEq] at hs
    subst hs
    exact ⟨rfl, rfl⟩

theorem execMsgs_params {c : Cfg} {msgs : List PMsg} {st st' : Store} (hs : execMsgs c st msgs = .ok st') :
    st'.sancMin = st.sancMin ∧ st'.unsancMin = st.unsancMin := by
  induction msgs generalizing st with
  | nil => simp only [execMsgs, Except.ok.injEq] at hs; subst hs; exact ⟨rfl, rfl⟩
  | cons m rest ih =>
    simp only [execMsgs] at hs
    cases hm : msgSanction c st m with
    | error e => simp [hm] at hs
    | ok st1 =>
      simp only [hm] at hs
      obtain ⟨a1, a2⟩ := msgSanction_params hm
      obtain ⟨b1, b2⟩ := ih hs
      exact ⟨b1.trans a1, b2.trans a2⟩

/-- the tally keeps the total deposit, the parameters, and adds no temporary entry -/
theorem tallyOutcome_frame {c : Cfg} {st : Store} (p : Proposal) (passes : Bool) (h : StoreOK c st) :
    let o := tallyOutcome c st p passes
    o.1.total = p.total ∧ o.2.sancMin = st.sancMin ∧ o.2.unsancMin = st.unsancMin ∧ ∀ e ∈ o.2.temp, e ∈ st.temp := by
  cases passes with
  | true =>
    cases he : execMsgs c st p.msgs with
    | ok st' =>
      obtain ⟨_, k2⟩ := execMsgs_ok h he
      obtain ⟨p1, p2⟩ := execMsgs_params he
      simp only [tallyOutcome, he]
      exact ⟨rfl, p1, p2, fun e he' => (k2 e he').1⟩
    | error e =>
      simp only [tallyOutcome, he]
      exact ⟨rfl, rfl, rfl, fun e he' => he'⟩
  | false =>
    cases hexp : p.expedited with
    | true => simp only [tallyOutcome, hexp]; exact ⟨rfl, rfl, rfl, fun e he' => he'⟩
    | false => simp only [tallyOutcome, hexp]; exact ⟨rfl, rfl, rfl, fun e he' => he'⟩

theorem tallyOne_newOK {s s' : State} {id : Nat} (h : Inv s) (hs : tallyOne s id = .ok s') :
    NewOK s s' ∧ PropsFrame s s' := by
  unfold tallyOne at hs
  cases hg : getProp s.props id with
  | none =>
    simp only [hg, Except.ok.injEq] at hs; subst hs
    exact ⟨newOK_refl s, fun q hq => ⟨q, hq, rfl, rfl⟩⟩
  | some p =>
    simp only [hg] at hs
    obtain ⟨hp, hpid⟩ := getProp_some hg
    have hs1 : ∀ s1, settleTally s p = .ok s1 → ∃ l, s1 = { s with ledger := l } := by
      intro s1 h1
      unfold settleTally at h1
      split_ifs at h1
      · simp only [Except.ok.injEq] at h1; exact ⟨s.ledger, h1.symm⟩
      · exact settle_ok h1
    cases hse : settleTally s p with
    | error e => simp [hse] at hs
    | ok s1 =>
      simp only [hse] at hs
      obtain ⟨l, rfl⟩ := hs1 s1 hse
      simp only at hs
      obtain ⟨o1, o2, _, o4, _⟩ := tallyOutcome_spec p (tally s.cfg p.vote).1 h.store
      obtain ⟨t1, t2, t3, t4⟩ := tallyOutcome_frame p (tally s.cfg p.vote).1 h.store
      generalize tallyOutcome s.cfg s.st p (tally s.cfg p.vote).1 = o at hs o1 o2 o4 t1 t2 t3 t4
      obtain ⟨p2, st2⟩ := o
      simp only at hs o1 o2 o4 t1 t2 t3 t4
      have hmsgs : ∀ m ∈ p2.msgs, ∀ a ∈ m.addrs, a ≠ "" := o2 ▸ h.msgsOk p hp
      cases hh : proposalGovHook s.cfg st2 (some p2) id with
      | error e =>
        have := hook_error hh
        subst this
        simp [hh] at hs
      | ok st =>
        simp only [hh, Except.ok.injEq] at hs
        subst hs
        obtain ⟨k1, k2, k3⟩ := hook_new o4 (fun q hq => by cases hq; exact hmsgs) hh
        refine ⟨⟨k1.trans t2, k2.trans t3, fun e he => ?_⟩, fun q hq => ?_⟩
        · rcases k3 e he with he2 | ⟨hid, q, hq, hqa, m, _, hv, _, hr⟩
          · exact Or.inl (t4 e he2)
          · have hq' : p2 = q := Option.some.inj hq
            subst hq'
            refine Or.inr ⟨p2, mem_setProp_self hp o1.symm, by omega, hqa, ?_⟩
            show Sanc.reachesMin p2.total (immediateMin st e.val) = true
            rw [immediateMin_congr k1 k2, ← hv]; exact hr
        · rcases mem_setProp hq with rfl | ⟨hq, _⟩
          · exact ⟨p, hp, o1.symm, t1.symm⟩
          · exact ⟨q, hq, rfl, rfl⟩

theorem endBlocker_newOK {s s' : State} (h : Inv s) (hs : endBlocker s = .ok s') : NewOK s s' := by
  unfold endBlocker at hs
  cases h1 : foldR expireOne s (inactiveIds s) with
  | error e => simp [h1] at hs
  | ok s1 =>
    simp only [h1] at hs
    obtain ⟨k1, _, _⟩ := foldR_inv (fun s x s' => expireOne_inv) _ h h1
    obtain ⟨j1, _, j3⟩ := foldR_inv (fun s x s' => tallyOne_inv) _ k1 hs
    obtain ⟨n1, _⟩ := foldR_newOK (fun s x s' => expireOne_inv) (fun s x s' => expireOne_newOK) _ h h1
    obtain ⟨n2, f2⟩ := foldR_newOK (fun s x s' => tallyOne_inv) (fun s x s' => tallyOne_newOK) _ k1 hs
    exact newOK_trans k1 j1 j3 n1 n2 f2

/-- what an accepted deposit leaves: the stored proposal `p2` (total deposit updated) and the
store the hook made of it -/
theorem addDeposit_shape {s s' : State} {id : Nat} {who : Addr} {amt : Coins}
    (hs : addDeposit s id who amt = .ok s') :
    ∃ p p2 l, getProp s.props id = some p ∧ p2.id = p.id ∧ p2.msgs = p.msgs ∧ p2.active = true ∧
      proposalGovHook s.cfg s.st (some p2) id = .ok s'.st ∧
      s' = { s with ledger := l, props := setProp s.props p2, st := s'.st } := by
  unfold addDeposit at hs
  cases hg : getProp s.props id with
  | none => simp [hg] at hs
  | some p =>
    simp only [hg] at hs
    split_ifs at hs with h1 h2 h3
    cases hsend : sendCoins s who s.cfg.govAcct amt with
    | error e => simp [hsend] at hs
    | ok s1 =>
      simp only [hsend] at hs
      obtain ⟨hs1, _⟩ := sendCoins_ok hsend
      subst hs1
      simp only at hs
      have hact : p.active = true := by simpa using h1
      obtain ⟨d1, d2, d3, _⟩ := depositedProp_spec s.cfg s.now p who amt
      generalize depositedProp s.cfg s.now p who amt = p2 at hs d1 d2 d3
      cases hh : proposalGovHook s.cfg s.st (some p2) id with
      | error e => simp [hh] at hs
      | ok st =>
        simp only [hh, Except.ok.injEq] at hs
        subst hs
        exact ⟨p, p2, _, rfl, d1, d2, d3 hact, hh, rfl⟩

theorem addDeposit_newOK {s s' : State} {id : Nat} {who : Addr} {amt : Coins} (h : Inv s)
    (hs : addDeposit s id who amt = .ok s') : NewOK s s' := by
  obtain ⟨p, p2, l, hg, d1, d2, d3, hh, hs'⟩ := addDeposit_shape hs
  obtain ⟨hp, hpid⟩ := getProp_some hg
  have hmsgs : ∀ m ∈ p2.msgs, ∀ a ∈ m.addrs, a ≠ "" := d2 ▸ h.msgsOk p hp
  obtain ⟨k1, k2, k3⟩ := hook_new h.store (fun q hq => by cases hq; exact hmsgs) hh
  refine ⟨k1, k2, fun e he => ?_⟩
  rcases k3 e he with he0 | ⟨hid, q, hq, hqa, m, _, hv, _, hr⟩
  · exact Or.inl he0
  · have hq' : p2 = q := Option.some.inj hq
    subst hq'
    have hmem : p2 ∈ s'.props := by rw [hs']; exact mem_setProp_self hp d1.symm
    refine Or.inr ⟨p2, hmem, by omega, hqa, ?_⟩
    rw [immediateMin_congr k1 k2, ← hv]; exact hr

/-- `SubmitProposal` is `AddDeposit` of the initial deposit on the state in which the new
proposal (id `s.nextId`, no deposit yet) is stored; the submission hook changed nothing. -/
theorem submitProposal_mid {s s' : State} {who : Addr} {msgs : List PMsg} {initial : Coins} {exp : Bool}
    (h : Inv s) (hs : submitProposal s who msgs initial exp = .ok s') :
    ∃ mid, Inv mid ∧ mid.st = s.st ∧ addDeposit mid s.nextId who initial = .ok s' := by
  unfold submitProposal at hs
  split_ifs at hs with h1 h2 h3
  cases hv : validateMsgs msgs with
  | error e => simp [hv] at hs
  | ok u =>
    cases u
    simp only [hv] at hs
    have hh : proposalGovHook s.cfg s.st (some (newProposal s who msgs exp)) s.nextId = .ok s.st :=
      hookMsgs_zero msgs h.store.sancPos h.store.unsancPos
    simp only [hh] at hs
    refine ⟨{ s with props := s.props ++ [newProposal s who msgs exp], nextId := s.nextId + 1, st := s.st }, ?_, rfl, hs⟩
    have hmsgs : ∀ m ∈ msgs, ∀ a ∈ m.addrs, a ≠ "" := fun m hmm => (validateMsgs_ok hv m hmm).1
    refine ⟨h.store, ?_, ?_, ?_, ?_, ?_, ?_⟩
    · intro q hq
      rcases List.mem_append.1 hq with hq | hq
      · exact Nat.lt_succ_of_lt (h.idsLt q hq)
      · simp only [List.mem_singleton] at hq; rw [hq]; show s.nextId < s.nextId + 1; omega
    · show ((s.props ++ [newProposal s who msgs exp]).map (·.id)).Nodup
      rw [List.map_append, List.nodup_append]
      refine ⟨h.idsNodup, by simp, ?_⟩
      intro a ha b hb
      simp only [List.map_cons, List.map_nil, List.mem_singleton] at hb
      obtain ⟨q, hq, rfl⟩ := List.mem_map.1 ha
      have := h.idsLt q hq
      have hb' : b = s.nextId := hb
      omega
    · intro q hq
      rcases List.mem_append.1 hq with hq | hq
      · exact h.msgsOk q hq
      · simp only [List.mem_singleton] at hq; rw [hq]; exact hmsgs
    · intro e he
      exact live_append _ (h.live e he)
    · intro i hi
      refine ⟨Nat.lt_succ_of_lt (h.cancelledOk i hi).1, ?_⟩
      intro q hq
      rcases List.mem_append.1 hq with hq | hq
      · exact (h.cancelledOk i hi).2 q hq
      · simp only [List.mem_singleton] at hq; rw [hq]
        have := (h.cancelledOk i hi).1
        show s.nextId ≠ i
        omega
    · intro q hq
      rcases List.mem_append.1 hq with hq | hq
      · exact h.depositsNonneg q hq
      · simp only [List.mem_singleton] at hq; rw [hq]; intro x hx; cases hx

theorem submitProposal_newOK {s s' : State} {who : Addr} {msgs : List PMsg} {initial : Coins} {exp : Bool}
    (h : Inv s) (hs : submitProposal s who msgs initial exp = .ok s') : NewOK s s' := by
  obtain ⟨mid, hmid, hst, hd⟩ := submitProposal_mid h hs
  obtain ⟨n1, n2, n3⟩ := addDeposit_newOK hmid hd
  rw [hst] at n1 n2 n3
  exact ⟨n1, n2, n3⟩

/-- after an accepted deposit on proposal `id` the stored proposal has, for every address named
by a message whose threshold its total deposit reaches, the entry of the last such message -/
theorem addDeposit_present {s s' : State} {id : Nat} {who : Addr} {amt : Coins} (h : Inv s)
    (hs : addDeposit s id who amt = .ok s') :
    ∃ p ∈ s'.props, p.id = id ∧ ∀ a v,
      lastReached (fun m => Spec.reaches p.total (if m.isSanction then s'.st.sancMin else s'.st.unsancMin)) a p.msgs
        = some v → (⟨a, id, v⟩ : TempEntry) ∈ s'.st.temp := by
  obtain ⟨p, p2, l, hg, d1, d2, d3, hh, hs'⟩ := addDeposit_shape hs
  obtain ⟨hp, hpid⟩ := getProp_some hg
  have hmsgs : ∀ m ∈ p2.msgs, ∀ a ∈ m.addrs, a ≠ "" := d2 ▸ h.msgsOk p hp
  obtain ⟨k1, k2, _⟩ := hook_new h.store (fun q hq => by cases hq; exact hmsgs) hh
  have hmem : p2 ∈ s'.props := by rw [hs']; exact mem_setProp_self hp d1.symm
  refine ⟨p2, hmem, d1.trans hpid, fun a v hl => ?_⟩
  apply hook_present h.store hmsgs d3 hh
  have hf : (fun m : PMsg => Spec.reaches p2.total (if m.isSanction then s'.st.sancMin else s'.st.unsancMin)) =
      (fun m : PMsg => Sanc.reachesMin p2.total (immediateMin s.st m.isSanction)) := by
    funext m
    rw [reaches_eq_reachesMin, k1, k2]
    rfl
  rw [← hf]; exact hl

end PvProofs.Sanc
