/-
C16 — stale expiration-queue entries: `NoStaleP` (every queue entry is the stored
expiration of a stored attribute) and the keeper functions that preserve it.
-/
import PvProofs.Lemmas.AttrStep

set_option linter.unusedSimpArgs false
set_option linter.unusedVariables false

namespace PvProofs.Lemmas.AttrStale
open PvModel.Attr PvProofs.Lemmas.AttrStore PvProofs.Lemmas.AttrInv PvProofs.Lemmas.AttrStep

def NoStaleP (s : State) : Prop := ∀ q ∈ s.queue, ∃ r ∈ s.recs, r.key = q.2 ∧ r.exp = some q.1

theorem noStale_iff (s : State) : noStale s = true ↔ NoStaleP s := by
  unfold noStale NoStaleP
  simp only [List.all_eq_true, List.any_eq_true, Bool.and_eq_true, decide_eq_true_eq]

theorem hasKey_iff (s : State) (k : Key) : hasKey s k = true ↔ ∃ r ∈ s.recs, r.key = k := by
  unfold hasKey
  simp only [List.any_eq_true, decide_eq_true_eq]

theorem put_noStale {s : State} {a : Attribute} (h : NoStaleP s) (hf : ∀ r ∈ s.recs, r.key ≠ a.key) :
    NoStaleP (put s a) := by
  intro q hq
  unfold put at hq
  rw [mem_addExp] at hq
  rw [put_recs]
  rcases hq with hq | ⟨e, he, rfl⟩
  · obtain ⟨r, hr, hk, hx⟩ := h q (by simpa using hq)
    refine ⟨r, List.mem_cons_of_mem _ (List.mem_filter.mpr ⟨hr, ?_⟩), hk, hx⟩
    simp only [decide_eq_true_eq]
    exact hf r hr
  · exact ⟨a, List.mem_cons_self, rfl, he⟩

theorem deleteOne_noStale {s : State} {a : Attribute} (hk : KeysUnique s.recs) (ha : a ∈ s.recs)
    (h : NoStaleP s) : NoStaleP (deleteOne s a) := by
  intro q hq
  unfold deleteOne at hq
  rw [mem_delExp] at hq
  obtain ⟨hq1, hq2⟩ := hq
  obtain ⟨r, hr, hrk, hx⟩ := h q (by simpa using hq1)
  rw [deleteOne_recs]
  refine ⟨r, List.mem_filter.mpr ⟨hr, ?_⟩, hrk, hx⟩
  simp only [decide_eq_true_eq]
  intro e
  have : r = a := hk.eq_of_key hr ha e
  subst this
  exact hq2 q.1 hx (by rw [hrk])

theorem foldl_deleteOne_noStale (l : List Attribute) :
    ∀ s : State, (∀ a ∈ l, a ∈ s.recs) → KeysUnique l → Inv s → NoStaleP s → NoStaleP (l.foldl deleteOne s) := by
  induction l with
  | nil => intro s _ _ _ h; exact h
  | cons a t ih =>
    intro s hm hk hi h
    simp only [List.foldl_cons]
    unfold KeysUnique at hk
    rw [List.pairwise_cons] at hk
    apply ih
    · intro b hb
      rw [deleteOne_recs]
      refine List.mem_filter.mpr ⟨hm b (List.mem_cons_of_mem _ hb), ?_⟩
      simp only [decide_eq_true_eq]
      exact fun e => hk.1 b hb e.symm
    · exact hk.2
    · exact deleteOne_inv (hm a List.mem_cons_self) hi
    · exact deleteOne_noStale hi.keys (hm a List.mem_cons_self) h

theorem reexp_noStale {s : State} {cur : Attribute} (e : Option Nat) (hk : KeysUnique s.recs)
    (hc : cur ∈ s.recs) (h : NoStaleP s) : NoStaleP (reexp s cur e) := by
  intro q hq
  unfold reexp at hq
  rw [mem_addExp] at hq
  rw [reexp_recs]
  rcases hq with hq | ⟨e', he', rfl⟩
  · simp only [setRec_queue] at hq
    rw [mem_delExp] at hq
    obtain ⟨hq1, hq2⟩ := hq
    obtain ⟨r, hr, hrk, hx⟩ := h q hq1
    refine ⟨r, List.mem_cons_of_mem _ (List.mem_filter.mpr ⟨hr, ?_⟩), hrk, hx⟩
    simp only [decide_eq_true_eq]
    intro ek
    have : r = cur := hk.eq_of_key hr hc ek
    subst this
    exact hq2 q.1 hx (by rw [hrk])
  · exact ⟨_, List.mem_cons_self, rfl, he'⟩

/-- The sweep keeps `NoStaleP`. -/
theorem sweep_noStale {s : State} (t : Nat) (hk : KeysUnique s.recs) (h : NoStaleP s) :
    NoStaleP ((s.queue.filter (fun q => decide (q.1 < t))).foldl expireOne { s with now := t }) := by
  intro q' hq'
  rw [foldl_expireOne_queue] at hq'
  obtain ⟨hq1, hq2⟩ := hq'
  have hq1' : q' ∈ s.queue := hq1
  obtain ⟨r, hr, hrk, hx⟩ := h q' hq1'
  refine ⟨r, ?_, hrk, hx⟩
  rw [foldl_expireOne_recs]
  refine ⟨hr, ?_⟩
  intro q hq ek
  obtain ⟨hqm, hqt⟩ := List.mem_filter.mp hq
  simp only [decide_eq_true_eq] at hqt
  obtain ⟨r1, hr1, hr1k, hx1⟩ := h q hqm
  have : r1 = r := hk.eq_of_key hr1 hr (by rw [hr1k, ek])
  subst this
  rw [hx1] at hx
  have e1 : q.1 = q'.1 := Option.some.inj hx
  apply hq2
  refine List.mem_filter.mpr ⟨hq1', ?_⟩
  simp only [decide_eq_true_eq]
  omega

end PvProofs.Lemmas.AttrStale
