/-
Helper lemmas for C09: per message, a successful execution preserves the invariant and is a
`GoodStep` with respect to the signers the code actually looks at (`effectiveSigners`).
-/
import PvProofs.Lemmas.VownerOps

namespace PvProofs.VownerL
open PvModel PvModel.Ledger PvModel.Vowner

/-! ### WriteScope -/

theorem writeParties_wf {s : State} {existing : Option Scope} {owners : List Party} {rollup : Bool}
    {signers : List Addr} {evs vo : Addr} {a : Auth} {used : List Addr}
    (h : writeParties s existing owners rollup signers evs vo = .ok (a, used)) : AuthWf s.grants a := by
  cases existing with
  | none =>
    simp only [writeParties] at h
    split at h
    · simp at h; rw [← h.1]; exact authWf_init _
    · split at h
      · simp at h
      · simp at h; rw [← h.1]; exact authWf_init _
  | some e =>
    simp only [writeParties] at h
    split at h
    · simp at h; rw [← h.1]; exact authWf_init _
    · split at h
      · simp at h
      · split at h
        · split at h
          · exact validateAllRequiredSigned_wf (authWf_init _) h
          · simp at h; rw [← h.1]; exact authWf_init _
        · exact validateAllRequiredPartiesSigned_wf (authWf_init _) h

theorem deleteParties_wf {s : State} {e : Scope} {signers : List Addr} {a : Auth} {used : List Addr}
    (h : deleteParties s e signers = .ok (a, used)) : AuthWf s.grants a := by
  unfold deleteParties at h
  split at h
  · exact validateAllRequiredSigned_wf (authWf_init _) h
  · exact validateAllRequiredPartiesSigned_wf (authWf_init _) h

theorem validateWriteScope_spec {s : State} {id : ScopeId} {owners : List Party} {rollup : Bool} {vo : Addr}
    {signers : List Addr} {a : Auth} {agents : List Addr} (hinv : Inv s)
    (h : validateWriteScope s id owners rollup vo signers = .ok (a, agents)) :
    signers ≠ [] ∧ AuthWf s.grants a ∧
    (vo ≠ "" → ∀ o, HolderIs s.ledger id o → o ≠ some vo →
      agents = effectiveSigners s signers ∧
      ∀ h, o = some h → VoConsent s s.grants (effectiveSigners s signers) .write h) := by
  have hsd := validateWriteScope_scopeDenom h
  unfold validateWriteScope at h
  split at h
  · simp at h
  · rename_i hvalid
    have hsg : signers ≠ [] := by intro e; subst e; simp at hvalid
    cases hev : writeExistingVO s id (findScope s id) vo with
    | error e => rw [hev] at h; simp at h
    | ok existingVO =>
      rw [hev] at h; simp only at h
      cases hp : writeParties s (findScope s id) owners rollup signers (existingVO.getD "") vo with
      | error e => rw [hp] at h; simp at h
      | ok r =>
        obtain ⟨a1, used1⟩ := r
        rw [hp] at h; simp only at h
        cases hv : validateScopeValueOwnersSigners s a1 existingVO.toList vo signers .write with
        | error e => rw [hv] at h; simp at h
        | ok r2 =>
          obtain ⟨a2, ag2, used2⟩ := r2
          rw [hv] at h; simp only at h
          cases hc : validateSmartContractSigners s (used2 ++ used1) .write a2 true signers with
          | error e => rw [hc] at h; simp at h
          | ok a3 =>
            rw [hc] at h; simp at h
            obtain ⟨rfl, rfl⟩ := h
            have hw1 := writeParties_wf hp
            obtain ⟨hw2, hcase⟩ := validateScopeValueOwnersSigners_spec hw1 hv
            have hw3 := validateSmartContractSigners_wf hw2 hc
            refine ⟨hsg, hw3, fun hvo o ho hne => ?_⟩
            obtain ⟨o0, ho0, hne0, hsc0⟩ := hinv id hsd
            have := holderIs_unique ho ho0; subst this
            unfold writeExistingVO at hev
            rw [findScope_isSome] at hev
            by_cases hs : hasScope s id = true
            · simp [hs, hvo, denomOwner_of_holderIs ho] at hev
              subst hev
              rcases hcase with ⟨h1, _⟩ | ⟨h1, h2⟩
              · cases o with
                | none => simp at h1
                | some x => simp at h1; exact absurd (by rw [h1]) hne
              · refine ⟨h1, fun x hx => ?_⟩
                subst hx
                apply h2 x (by simp)
                · intro e; exact hne0 (by rw [e])
                · intro e; exact hne (by rw [e])
            · have hon : o = none := by
                cases o with
                | none => rfl
                | some x => exact absurd (hsc0 rfl) hs
              subst hon
              simp [hs] at hev
              subst hev
              rcases hcase with ⟨h1, _⟩ | ⟨h1, _⟩
              · simp at h1
              · exact ⟨h1, fun x hx => by simp at hx⟩

theorem optAddr_ne {a : Addr} (h : a ≠ "") : optAddr a = some a := by simp [optAddr, h]
theorem optAddr_empty : optAddr "" = none := by simp [optAddr]

theorem write_step {s s' : State} {id : ScopeId} {owners : List Party} {rollup : Bool} {vo : Addr}
    {signers : List Addr} (hinv : Inv s) (h : writeScope s id owners rollup vo signers = .ok s') :
    Inv s' ∧ GoodStep s (.msg .write) (effectiveSigners s signers) s' ∧ (vo = "" → s'.ledger = s.ledger) := by
  unfold writeScope at h
  cases hv : validateWriteScope s id owners rollup vo signers with
  | error e => rw [hv] at h; simp at h
  | ok r =>
    obtain ⟨a, agents⟩ := r
    rw [hv] at h; simp only at h
    obtain ⟨hsg, _, hcons⟩ := validateWriteScope_spec hinv hv
    have hsd := validateWriteScope_scopeDenom hv
    unfold setScope at h
    by_cases hvo : vo ≠ ""
    · rw [if_pos hvo] at h
      cases hsv : setScopeValueOwner { s with grants := a.grants } agents id vo with
      | error e => rw [hsv] at h; simp at h
      | ok s2 =>
        rw [hsv] at h; simp at h; subst h
        obtain ⟨hfr, hother, hid⟩ := setScopeValueOwner_spec (s := { s with grants := a.grants }) hinv.allHeld hsd hsv
        refine ⟨?_, ?_, fun e => absurd e hvo⟩
        · intro d hdd
          obtain ⟨o, ho, hne, hsc⟩ := hinv d hdd
          by_cases hd : d = id
          · subst hd
            refine ⟨some vo, ?_, ?_, ?_⟩
            · have := (hid o ho hne).1; rwa [optAddr_ne hvo] at this
            · intro e; exact hvo (by injection e)
            · intro _; rw [hasScope_putScope]; simp
          · refine ⟨o, hother d hd o ho, hne, fun hso => ?_⟩
            rw [hasScope_putScope, hasScope_congr hfr.scopes]
            have hh : hasScope { s with grants := a.grants } d = hasScope s d := rfl
            rw [hh]; simp [hsc hso]
        · intro d hdd o o' ho ho' hne
          by_cases hd : d = id
          · subst hd
            obtain ⟨_, _, hne0, _⟩ := hinv d hdd
            have hne1 : o ≠ some "" := by
              obtain ⟨o1, ho1, hn1, _⟩ := hinv d hdd
              rw [holderIs_unique ho ho1]; exact hn1
            obtain ⟨hnew, hsend⟩ := hid o ho hne1
            rw [optAddr_ne hvo] at hnew hsend
            have : o' = some vo := holderIs_unique ho' hnew
            subst this
            obtain ⟨hw, hdp, _⟩ := hsend hne
            obtain ⟨hag, hvc⟩ := hcons hvo o ho hne
            subst hag
            simp only [hvo, if_false] at hdp
            refine ⟨fun x hx => ?_, fun x hx => ?_⟩
            · subst hx
              have hw' : withdrawOk s (effectiveSigners s signers) x = true := by
                rw [← hw]; exact (withdrawOk_congr rfl _ _).symm
              exact consents_of_vo rfl (hvc x rfl) hw'
            · injection hx with hx; subst hx
              have hdp' : depositOk s (effectiveSigners s signers) (o.getD modAddr) vo = true := by
                rw [← hdp]; exact (depositOk_congr rfl _ _ _).symm
              exact depositP_of_agents hdp' (effectiveSigners_ne_nil hsg)
          · have := hother d hd o ho
            exact absurd (holderIs_unique this ho') hne
    · have hvo' : vo = "" := by simpa using hvo
      rw [if_neg hvo] at h
      simp at h; subst h
      refine ⟨?_, goodStep_of_ledger_eq _ _ rfl, fun _ => rfl⟩
      intro d hdd
      obtain ⟨o, ho, hne, hsc⟩ := hinv d hdd
      refine ⟨o, ho, hne, fun hso => ?_⟩
      rw [hasScope_putScope]
      have : hasScope { s with grants := a.grants } d = hasScope s d := hasScope_congr rfl d
      simp [this, hsc hso]

/-! ### DeleteScope -/

theorem validateDeleteScope_spec {s : State} {id : ScopeId} {signers : List Addr} {a : Auth} {agents : List Addr}
    (hinv : Inv s) (h : validateDeleteScope s id signers = .ok (a, agents)) :
    signers ≠ [] ∧ hasScope s id = true ∧
    (∀ o, HolderIs s.ledger id o →
      agents = effectiveSigners s signers ∧
      ∀ x, o = some x → VoConsent s s.grants (effectiveSigners s signers) .delete x) := by
  have hsd := validateDeleteScope_scopeDenom h
  unfold validateDeleteScope at h
  split at h
  · simp at h
  · rename_i hvalid
    have hsg : signers ≠ [] := by intro e; subst e; simp at hvalid
    cases hf : findScope s id with
    | none => rw [hf] at h; simp at h
    | some e =>
      rw [hf] at h; simp only at h
      have hhas : hasScope s id = true := by rw [← findScope_isSome, hf]; rfl
      cases hp : deleteParties s e signers with
      | error er => rw [hp] at h; simp at h
      | ok r =>
        obtain ⟨a1, used1⟩ := r
        rw [hp] at h; simp only at h
        obtain ⟨o0, ho0, hne0, _⟩ := hinv id hsd
        rw [denomOwner_of_holderIs ho0] at h; simp only at h
        cases hv : validateScopeValueOwnersSigners s a1 o0.toList "" signers .delete with
        | error er => rw [hv] at h; simp at h
        | ok r2 =>
          obtain ⟨a2, ag2, used2⟩ := r2
          rw [hv] at h; simp only at h
          cases hc : validateSmartContractSigners s (used2 ++ used1) .delete a2 true signers with
          | error er => rw [hc] at h; simp at h
          | ok a3 =>
            rw [hc] at h; simp at h
            obtain ⟨rfl, rfl⟩ := h
            have hw1 := deleteParties_wf hp
            obtain ⟨_, hcase⟩ := validateScopeValueOwnersSigners_spec hw1 hv
            refine ⟨hsg, hhas, fun o ho => ?_⟩
            have := holderIs_unique ho ho0; subst this
            rcases hcase with ⟨h1, _⟩ | ⟨h1, h2⟩
            · cases o with
              | none => simp at h1
              | some x => simp at h1; exact absurd (by rw [h1]) hne0
            · refine ⟨h1, fun x hx => ?_⟩
              subst hx
              have hx0 : x ≠ "" := fun e => hne0 (by rw [e])
              exact h2 x (by simp) hx0 hx0

theorem delete_step {s s' : State} {id : ScopeId} {signers : List Addr}
    (hinv : Inv s) (h : deleteScope s id signers = .ok s') :
    Inv s' ∧ GoodStep s (.msg .delete) (effectiveSigners s signers) s' ∧
    (hasScope s' id = false ∧ HolderIs s'.ledger id none) := by
  unfold deleteScope at h
  cases hv : validateDeleteScope s id signers with
  | error e => rw [hv] at h; simp at h
  | ok r =>
    obtain ⟨a, agents⟩ := r
    rw [hv] at h; simp only at h
    obtain ⟨hsg, hhas, hcons⟩ := validateDeleteScope_spec hinv hv
    have hsd := validateDeleteScope_scopeDenom hv
    unfold removeScope at h
    have hhas' : hasScope { s with grants := a.grants } id = true := by rw [hasScope_congr rfl]; exact hhas
    simp only [hhas', Bool.not_true, Bool.false_eq_true, if_false] at h
    cases hsv : setScopeValueOwner { s with grants := a.grants } agents id "" with
    | error e => rw [hsv] at h; simp at h
    | ok s2 =>
      rw [hsv] at h; simp at h; subst h
      obtain ⟨hfr, hother, hid⟩ := setScopeValueOwner_spec (s := { s with grants := a.grants }) hinv.allHeld hsd hsv
      obtain ⟨o0, ho0, hne0, _⟩ := hinv id hsd
      have hnone : HolderIs s2.ledger id none := by
        have := (hid o0 ho0 hne0).1; rwa [optAddr_empty] at this
      refine ⟨?_, ?_, ?_, hnone⟩
      · intro d hdd
        by_cases hd : d = id
        · subst hd
          exact ⟨none, hnone, by simp, by simp⟩
        · obtain ⟨o, ho, hne, hsc⟩ := hinv d hdd
          refine ⟨o, hother d hd o ho, hne, fun hso => ?_⟩
          rw [hasScope_dropScope, hasScope_congr hfr.scopes]
          have : ¬ id = d := fun e => hd e.symm
          have hh : hasScope { s with grants := a.grants } d = hasScope s d := rfl
          rw [hh]; simp [this, hsc hso]
      · intro d hdd o o' ho ho' hne
        by_cases hd : d = id
        · subst hd
          have := holderIs_unique ho ho0; subst this
          have : o' = none := holderIs_unique ho' hnone
          subst this
          obtain ⟨_, hsend⟩ := hid o ho hne0
          rw [optAddr_empty] at hsend
          obtain ⟨hw, _, _⟩ := hsend hne
          obtain ⟨hag, hvc⟩ := hcons o ho
          subst hag
          refine ⟨fun x hx => ?_, fun x hx => by simp at hx⟩
          subst hx
          have hw' : withdrawOk s (effectiveSigners s signers) x = true := by
            rw [← hw]; exact (withdrawOk_congr rfl _ _).symm
          exact consents_of_vo rfl (hvc x rfl) hw'
        · exact absurd (holderIs_unique (hother d hd o ho) ho') hne
      · rw [hasScope_dropScope]; simp

/-! ### UpdateValueOwners / MigrateValueOwner -/

theorem validateForScopes_spec {links : List Link} {seen : List ScopeId}
    (h : validateForScopes seen links = .ok ()) :
    (links.map (·.2)).Nodup ∧ (∀ l ∈ links, ¬ l.2 ∈ seen) ∧ ∀ l ∈ links, l.1 ≠ none := by
  induction links generalizing seen with
  | nil => simp
  | cons l rest ih =>
    obtain ⟨a, id⟩ := l
    unfold validateForScopes at h
    split at h
    · simp at h
    · rename_i hseen
      split at h
      · simp at h
      · rename_i ha
        obtain ⟨h1, h2, h3⟩ := ih h
        refine ⟨?_, ?_, ?_⟩
        · simp only [List.map_cons, List.nodup_cons]
          refine ⟨?_, h1⟩
          intro hm
          obtain ⟨l', hl', he⟩ := List.mem_map.mp hm
          have := h2 l' hl'
          rw [he] at this
          exact this (by simp)
        · intro l' hl'
          rcases List.mem_cons.mp hl' with rfl | hl'
          · simpa using hseen
          · intro hc; exact h2 l' hl' (List.mem_cons_of_mem _ hc)
        · intro l' hl'
          rcases List.mem_cons.mp hl' with rfl | hl'
          · exact ha
          · exact h3 l' hl'

theorem idsOf_nodup {links : List Link} (h : (links.map (·.2)).Nodup) (f : Addr) : (idsOf links f).Nodup := by
  unfold idsOf
  exact h.sublist (List.Sublist.map _ List.filter_sublist)

theorem mem_accAddrs {links : List Link} {a : Addr} : a ∈ accAddrs links ↔ ∃ l ∈ links, l.1 = some a := by
  unfold accAddrs
  rw [mem_dedup, List.mem_filterMap]

/-- the send loop: each token either stays or moves, with the marker checks passed, from one of
the listed senders to `to` -/
theorem sendAll_spec {ag : List Addr} {links : List Link} {to : Addr}
    (hnd : ∀ f, (idsOf links f).Nodup) {froms : List Addr} {s s' : State}
    (h : sendAll ag links to s froms = .ok s') :
    Frame s s' ∧ ∀ d o, HolderIs s.ledger d o →
      HolderIs s'.ledger d o ∨
      (∃ f ∈ froms, f ≠ to ∧ o = some f ∧ withdrawOk s ag f = true ∧ depositOk s ag f to = true ∧
        HolderIs s'.ledger d (some to)) := by
  induction froms generalizing s with
  | nil => simp [sendAll] at h; subst h; exact ⟨Frame.refl _, fun d o ho => Or.inl ho⟩
  | cons f rest ih =>
    unfold sendAll at h
    by_cases hf : f = to
    · rw [if_pos hf] at h
      obtain ⟨hfr, hr⟩ := ih h
      refine ⟨hfr, fun d o ho => ?_⟩
      rcases hr d o ho with h1 | ⟨f', hf', rest'⟩
      · exact Or.inl h1
      · exact Or.inr ⟨f', List.mem_cons_of_mem _ hf', rest'⟩
    · rw [if_neg hf] at h
      cases hs : sendCoins s ag f to (idsOf links f) with
      | error e => rw [hs] at h; simp at h
      | ok s1 =>
        rw [hs] at h; simp only at h
        obtain ⟨hfr1, hr⟩ := ih h
        have hfr0 := sendCoins_frame hs
        obtain ⟨_, hw, hdp, _⟩ := sendCoins_ok hs
        refine ⟨hfr0.trans hfr1, fun d o ho => ?_⟩
        obtain ⟨hsrc, hmid⟩ := sendCoins_holder (hnd f) hs ho
        by_cases hd : d ∈ idsOf links f
        · simp only [hd, if_true] at hmid
          have ho' := hsrc hd
          rcases hr d (some to) hmid with h1 | ⟨f', _, hne', he, _⟩
          · exact Or.inr ⟨f, by simp, hf, ho', hw, hdp, h1⟩
          · injection he with he; exact absurd he.symm hne'
        · simp only [hd, if_false] at hmid
          rcases hr d o hmid with h1 | ⟨f', hf', hne', he, hw', hdp', hfin⟩
          · exact Or.inl h1
          · refine Or.inr ⟨f', List.mem_cons_of_mem _ hf', hne', he, ?_, ?_, hfin⟩
            · rw [← hw']; exact (withdrawOk_congr hfr0.markers _ _).symm
            · rw [← hdp']; exact (depositOk_congr hfr0.markers _ _ _).symm

theorem setScopeValueOwners_spec {s s' : State} {ag : List Addr} {links : List Link} {to : Addr}
    (h : setScopeValueOwners s ag links to = .ok s') :
    Frame s s' ∧ ∀ d o, HolderIs s.ledger d o →
      HolderIs s'.ledger d o ∨
      (∃ f ∈ accAddrs links, f ≠ to ∧ o = some f ∧ withdrawOk s ag f = true ∧ depositOk s ag f to = true ∧
        HolderIs s'.ledger d (some to)) := by
  unfold setScopeValueOwners at h
  split at h
  · simp at h; subst h; exact ⟨Frame.refl _, fun d o ho => Or.inl ho⟩
  · cases hv : validateForScopes [] links with
    | error e => rw [hv] at h; simp at h
    | ok u =>
      rw [hv] at h; simp only at h
      split at h
      · simp at h
      · exact sendAll_spec (fun f => idsOf_nodup (validateForScopes_spec hv).1 f) h

theorem validateUpdateValueOwners_spec {s : State} {links : List Link} {proposed : Addr} {signers : List Addr}
    {mt : MsgType} {a : Auth} {agents : List Addr}
    (h : validateUpdateValueOwners s links proposed signers mt = .ok (a, agents)) :
    agents = effectiveSigners s signers ∧
    ∀ ex ∈ accAddrs links, ex ≠ "" → ex ≠ proposed → VoConsent s s.grants (effectiveSigners s signers) mt ex := by
  unfold validateUpdateValueOwners at h
  split at h
  · simp at h
  · cases hv : validateForScopes [] links with
    | error e => rw [hv] at h; simp at h
    | ok u =>
      rw [hv] at h; simp only at h
      split at h
      · simp at h
      · rename_i hsame
        cases hs : validateScopeValueOwnersSigners s { grants := s.grants } (accAddrs links) proposed signers mt with
        | error e => rw [hs] at h; simp at h
        | ok r =>
          obtain ⟨a1, ag1, u1⟩ := r
          rw [hs] at h; simp at h
          obtain ⟨rfl, rfl⟩ := h
          obtain ⟨_, hcase⟩ := validateScopeValueOwnersSigners_spec (authWf_init _) hs
          rcases hcase with ⟨h1, _⟩ | h2
          · exfalso
            have : proposed ∈ accAddrs links := by rw [h1]; simp
            obtain ⟨l, hl, he⟩ := mem_accAddrs.mp this
            apply hsame
            simp only [List.any_eq_true, decide_eq_true_eq]
            exact ⟨l, hl, he⟩
          · exact h2

/-- shared by UpdateValueOwners and MigrateValueOwner -/
theorem moveValueOwners_step {s s' : State} {links : List Link} {vo : Addr} {signers : List Addr}
    {mt : MsgType} {a : Auth} {agents : List Addr} (hinv : Inv s) (hvo : vo ≠ "") (hsg : signers ≠ [])
    (hv : validateUpdateValueOwners s links vo signers mt = .ok (a, agents))
    (h : setScopeValueOwners { s with grants := a.grants } agents links vo = .ok s') :
    Inv s' ∧ GoodStep s (.msg mt) (effectiveSigners s signers) s' ∧
    (∀ d, isScopeDenom d = true → supply s'.ledger d = supply s.ledger d) := by
  obtain ⟨hag, hcons⟩ := validateUpdateValueOwners_spec hv
  subst hag
  obtain ⟨hfr, hmoves⟩ := setScopeValueOwners_spec h
  refine ⟨?_, ?_, ?_⟩
  · intro d hdd
    obtain ⟨o, ho, hne, hsc⟩ := hinv d hdd
    rcases hmoves d o ho with h1 | ⟨f, _, _, he, _, _, hfin⟩
    · exact ⟨o, h1, hne, fun hso => by rw [hasScope_congr hfr.scopes]; exact hsc hso⟩
    · refine ⟨some vo, hfin, fun e => hvo (by injection e), fun _ => ?_⟩
      rw [hasScope_congr hfr.scopes]
      exact hsc (by rw [he]; rfl)
  · intro d hdd o o' ho ho' hne
    rcases hmoves d o ho with h1 | ⟨f, hf, hfne, he, hw, hdp, hfin⟩
    · exact absurd (holderIs_unique h1 ho') hne
    · have : o' = some vo := holderIs_unique ho' hfin
      subst this
      subst he
      obtain ⟨_, _, hne0, _⟩ := hinv d hdd
      have hf0 : f ≠ "" := by
        obtain ⟨o1, ho1, hn1, _⟩ := hinv d hdd
        have := holderIs_unique ho ho1; subst this
        intro e; exact hn1 (by rw [e])
      refine ⟨fun x hx => ?_, fun x hx => ?_⟩
      · injection hx with hx; subst hx
        have hw' : withdrawOk s (effectiveSigners s signers) f = true := by
          rw [← hw]; exact (withdrawOk_congr rfl _ _).symm
        exact consents_of_vo rfl (hcons f hf hf0 hfne) hw'
      · injection hx with hx; subst hx
        have hdp' : depositOk s (effectiveSigners s signers) f vo = true := by
          rw [← hdp]; exact (depositOk_congr rfl _ _ _).symm
        exact depositP_of_agents hdp' (effectiveSigners_ne_nil hsg)
  · intro d hdd
    obtain ⟨o, ho, _, _⟩ := hinv d hdd
    rcases hmoves d o ho with h1 | ⟨f, _, _, he, _, _, hfin⟩
    · rw [h1.1, ho.1]
    · rw [hfin.1, ho.1, he]; rfl

theorem updvo_step {s s' : State} {ids : List ScopeId} {vo : Addr} {signers : List Addr}
    (hinv : Inv s) (h : updateValueOwners s ids vo signers = .ok s') :
    Inv s' ∧ GoodStep s (.msg .updvo) (effectiveSigners s signers) s' ∧
    (∀ d, isScopeDenom d = true → supply s'.ledger d = supply s.ledger d) := by
  unfold updateValueOwners at h
  split at h
  · simp at h
  · rename_i hvalid
    simp only [Bool.or_eq_true, List.isEmpty_iff, decide_eq_true_eq, not_or] at hvalid
    cases hl : getScopeValueOwners s.ledger ids with
    | error e => rw [hl] at h; simp at h
    | ok links =>
      rw [hl] at h; simp only at h
      cases hv : validateUpdateValueOwners s links vo signers .updvo with
      | error e => rw [hv] at h; simp at h
      | ok r =>
        obtain ⟨a, agents⟩ := r
        rw [hv] at h; simp only at h
        exact moveValueOwners_step hinv hvalid.1.1.2 hvalid.1.2 hv h

theorem migrate_step {s s' : State} {ex pr : Addr} {signers : List Addr}
    (hinv : Inv s) (h : migrateValueOwner s ex pr signers = .ok s') :
    Inv s' ∧ GoodStep s (.msg .migrate) (effectiveSigners s signers) s' ∧
    (∀ d, isScopeDenom d = true → supply s'.ledger d = supply s.ledger d) := by
  unfold migrateValueOwner at h
  split at h
  · simp at h
  · rename_i hvalid
    simp only [Bool.or_eq_true, List.isEmpty_iff, decide_eq_true_eq, not_or] at hvalid
    simp only at h
    split at h
    · simp at h
    · cases hv : validateUpdateValueOwners s (scopesForValueOwner s.ledger ex) pr signers .migrate with
      | error e => rw [hv] at h; simp at h
      | ok r =>
        obtain ⟨a, agents⟩ := r
        rw [hv] at h; simp only at h
        exact moveValueOwners_step hinv hvalid.1.2 hvalid.2 hv h

/-! ### bank MsgSend -/

theorem send_step {s s' : State} {frm to : Addr} {ids : List ScopeId}
    (hinv : Inv s) (h : bankSend s frm to ids = .ok s') :
    Inv s' ∧ GoodStep s .send [frm] s' ∧ (∀ d, supply s'.ledger d = supply s.ledger d) := by
  unfold bankSend at h
  split at h
  · simp at h
  · rename_i hvalid
    simp only [Bool.or_eq_true, decide_eq_true_eq, not_or, Bool.not_eq_true', Bool.not_eq_false] at hvalid
    obtain ⟨⟨⟨_, hto⟩, _⟩, hnd⟩ := hvalid
    have hnd' : ids.Nodup := nodupB_iff.mp (by simpa using hnd)
    split at h
    · simp at h
    · have hfr := sendCoins_frame h
      obtain ⟨_, _, hdp, _⟩ := sendCoins_ok h
      refine ⟨?_, ?_, ?_⟩
      · intro d hdd
        obtain ⟨o, ho, hne, hsc⟩ := hinv d hdd
        obtain ⟨hsrc, hfin⟩ := sendCoins_holder hnd' h ho
        by_cases hd : d ∈ ids
        · simp only [hd, if_true] at hfin
          refine ⟨some to, hfin, fun e => hto (by injection e), fun _ => ?_⟩
          rw [hasScope_congr hfr.scopes]
          exact hsc (by rw [hsrc hd]; rfl)
        · simp only [hd, if_false] at hfin
          exact ⟨o, hfin, hne, fun hso => by rw [hasScope_congr hfr.scopes]; exact hsc hso⟩
      · intro d hdd o o' ho ho' hne
        obtain ⟨hsrc, hfin⟩ := sendCoins_holder hnd' h ho
        by_cases hd : d ∈ ids
        · simp only [hd, if_true] at hfin
          have : o' = some to := holderIs_unique ho' hfin
          subst this
          have := hsrc hd; subst this
          refine ⟨fun x hx => ?_, fun x hx => ?_⟩
          · injection hx with hx; subst hx; rfl
          · injection hx with hx; subst hx
            exact depositP_of_sender hdp
        · simp only [hd, if_false] at hfin
          exact absurd (holderIs_unique hfin ho') hne
      · intro d
        obtain ⟨_, _, _, rfl⟩ := sendCoins_ok h
        simp [supply_move]

/-! ### marker MsgWithdraw -/

theorem mwithdraw_step {s s' : State} {marker admin to : Addr} {ids : List ScopeId}
    (hinv : Inv s) (h : markerWithdraw s marker admin to ids = .ok s') :
    Inv s' ∧ GoodStep s .mwithdraw [admin] s' ∧ (∀ d, supply s'.ledger d = supply s.ledger d) := by
  unfold markerWithdraw at h
  split at h
  · simp at h
  · rename_i hvalid
    simp only [Bool.or_eq_true, decide_eq_true_eq, not_or, Bool.not_eq_true', Bool.not_eq_false] at hvalid
    obtain ⟨⟨⟨_, hto⟩, _⟩, hnd⟩ := hvalid
    have hnd' : ids.Nodup := nodupB_iff.mp (by simpa using hnd)
    cases hm : findMarker s marker with
    | none => rw [hm] at h; simp at h
    | some m =>
      rw [hm] at h; simp only at h
      split at h
      · simp at h
      · rename_i hw
        split at h
        · simp at h
        · rename_i hdp
          split at h
          · simp at h
          · split at h
            · simp at h
            · split at h
              · simp at h
              · rename_i hf
                split at h
                · simp at h
                simp at h; subst h
                have hf' : hasFunds s.ledger marker ids = true := by simpa using hf
                have hw' : m.has admin .withdraw = true := by simpa using hw
                have hdp' : depositOk s [admin] marker to = true := by simpa using hdp
                refine ⟨?_, ?_, ?_⟩
                · intro d hdd
                  obtain ⟨o, ho, hne, hsc⟩ := hinv d hdd
                  obtain ⟨hsrc, hfin⟩ := holderIs_move (b := to) hnd' hf' ho
                  by_cases hd : d ∈ ids
                  · simp only [hd, if_true] at hfin
                    refine ⟨some to, hfin, fun e => hto (by injection e), fun _ => ?_⟩
                    exact hsc (by rw [hsrc hd]; rfl)
                  · simp only [hd, if_false] at hfin
                    exact ⟨o, hfin, hne, hsc⟩
                · intro d hdd o o' ho ho' hne
                  obtain ⟨hsrc, hfin⟩ := holderIs_move (b := to) hnd' hf' ho
                  by_cases hd : d ∈ ids
                  · simp only [hd, if_true] at hfin
                    have : o' = some to := holderIs_unique ho' hfin
                    subst this
                    have := hsrc hd; subst this
                    refine ⟨fun x hx => ?_, fun x hx => ?_⟩
                    · injection hx with hx; subst hx
                      exact ⟨m, hm, admin, by simp, hw'⟩
                    · injection hx with hx; subst hx
                      exact depositP_of_agents hdp' (by simp)
                  · simp only [hd, if_false] at hfin
                    exact absurd (holderIs_unique hfin ho') hne
                · intro d
                  simp [supply_move]

/-! ### bank MsgMultiSend -/

theorem msendLoop_spec {frm : Addr} {outs : List (Addr × List ScopeId)} {s s' : State}
    (hnd : ∀ o ∈ outs, o.2.Nodup) (h : msendLoop frm s outs = .ok s') :
    Frame s s' ∧ (∀ d, supply s'.ledger d = supply s.ledger d) ∧
    ∀ d o, HolderIs s.ledger d o →
      HolderIs s'.ledger d o ∨
      (o = some frm ∧ ∃ to ∈ outs.map (·.1), depositOk s [] frm to = true ∧ HolderIs s'.ledger d (some to)) := by
  induction outs generalizing s with
  | nil => simp [msendLoop] at h; subst h; exact ⟨Frame.refl _, fun _ => rfl, fun d o ho => Or.inl ho⟩
  | cons out rest ih =>
    obtain ⟨to, ids⟩ := out
    unfold msendLoop at h
    cases hs : sendCoins s [] frm to ids with
    | error e => rw [hs] at h; simp at h
    | ok s1 =>
      rw [hs] at h; simp only at h
      obtain ⟨hfr1, hsup1, hr⟩ := ih (fun o ho => hnd o (List.mem_cons_of_mem _ ho)) h
      have hfr0 := sendCoins_frame hs
      obtain ⟨_, _, hdp, hs1⟩ := sendCoins_ok hs
      refine ⟨hfr0.trans hfr1, fun d => ?_, fun d o ho => ?_⟩
      · rw [hsup1 d, hs1]; simp [supply_move]
      · obtain ⟨hsrc, hmid⟩ := sendCoins_holder (hnd (to, ids) (by simp)) hs ho
        by_cases hd : d ∈ ids
        · simp only [hd, if_true] at hmid
          have ho' := hsrc hd
          rcases hr d (some to) hmid with h1 | ⟨_, to2, hto2, hdp2, hfin⟩
          · exact Or.inr ⟨ho', to, by simp, hdp, h1⟩
          · refine Or.inr ⟨ho', to2, ?_, ?_, hfin⟩
            · simp only [List.map_cons, List.mem_cons]; exact Or.inr hto2
            · rw [← hdp2]; exact (depositOk_congr hfr0.markers _ _ _).symm
        · simp only [hd, if_false] at hmid
          rcases hr d o hmid with h1 | ⟨he, to2, hto2, hdp2, hfin⟩
          · exact Or.inl h1
          · refine Or.inr ⟨he, to2, ?_, ?_, hfin⟩
            · simp only [List.map_cons, List.mem_cons]; exact Or.inr hto2
            · rw [← hdp2]; exact (depositOk_congr hfr0.markers _ _ _).symm

theorem msend_step {s s' : State} {frm : Addr} {outs : List (Addr × List ScopeId)}
    (hinv : Inv s) (h : bankMultiSend s frm outs = .ok s') :
    Inv s' ∧ GoodStep s .send [frm] s' ∧ (∀ d, supply s'.ledger d = supply s.ledger d) := by
  unfold bankMultiSend at h
  split at h
  · simp at h
  · rename_i hvalid
    simp only [Bool.or_eq_true, decide_eq_true_eq, not_or, List.any_eq_true, not_exists, not_and,
      Bool.not_eq_true', Bool.not_eq_false] at hvalid
    obtain ⟨⟨_, _⟩, hout⟩ := hvalid
    have hto : ∀ o ∈ outs, o.1 ≠ "" := fun o ho e => by
      have := hout o ho; simp [e] at this
    have hnd : ∀ o ∈ outs, o.2.Nodup := fun o ho => by
      have := hout o ho
      apply nodupB_iff.mp
      cases hc : nodupB o.2 with
      | true => rfl
      | false => simp [hc] at this
    split at h
    · simp at h
    · split at h
      · simp at h
      · obtain ⟨hfr, hsup, hmoves⟩ := msendLoop_spec hnd h
        refine ⟨?_, ?_, hsup⟩
        · intro d hdd
          obtain ⟨o, ho, hne, hsc⟩ := hinv d hdd
          rcases hmoves d o ho with h1 | ⟨he, to, hmem, _, hfin⟩
          · exact ⟨o, h1, hne, fun hso => by rw [hasScope_congr hfr.scopes]; exact hsc hso⟩
          · obtain ⟨out, hout', rfl⟩ := List.mem_map.mp hmem
            refine ⟨some out.1, hfin, fun e => hto out hout' (by injection e), fun _ => ?_⟩
            rw [hasScope_congr hfr.scopes]
            exact hsc (by rw [he]; rfl)
        · intro d hdd o o' ho ho' hne
          rcases hmoves d o ho with h1 | ⟨he, to, _, hdp, hfin⟩
          · exact absurd (holderIs_unique h1 ho') hne
          · have : o' = some to := holderIs_unique ho' hfin
            subst this
            subst he
            refine ⟨fun x hx => ?_, fun x hx => ?_⟩
            · injection hx with hx; subst hx; rfl
            · injection hx with hx; subst hx
              exact depositP_of_sender hdp

/-! ### environment operations -/

theorem fundAccount_spec {s s' : State} {a : Addr} {dn : Denom} {n : Nat} (h : fundAccount s a dn n = .ok s') :
    s'.scopes = s.scopes ∧ s'.grants = s.grants ∧
    ∀ d, isScopeDenom d = true → (supply s'.ledger d = supply s.ledger d ∧ ∀ x, bal s'.ledger x d = bal s.ledger x d) := by
  unfold fundAccount at h
  split at h
  · simp at h
  · rename_i hvalid
    simp only [Bool.or_eq_true, decide_eq_true_eq, not_or, Bool.not_eq_true] at hvalid
    simp at h; subst h
    refine ⟨rfl, rfl, fun d hd => ?_⟩
    have hne : ¬ dn = d := fun e => by rw [e, hd] at hvalid; exact absurd hvalid.2 (by simp)
    simp [supply_credit, bal_credit, Coins.amountOf_cons, hne]

theorem fund_step {s s' : State} {a : Addr} {dn : Denom} {n : Nat} (hinv : Inv s)
    (h : fundAccount s a dn n = .ok s') (kind : StepKind) (sg : List Addr) :
    Inv s' ∧ GoodStep s kind sg s' := by
  obtain ⟨hsc, _, hsame⟩ := fundAccount_spec h
  have hhold : ∀ d, isScopeDenom d = true → ∀ o, HolderIs s.ledger d o → HolderIs s'.ledger d o := by
    intro d hd o ho
    obtain ⟨h1, h2⟩ := hsame d hd
    exact ⟨by rw [h1]; exact ho.1, fun x => by rw [h2 x]; exact ho.2 x⟩
  refine ⟨fun d hd => ?_, fun d hd o o' ho ho' hne => ?_⟩
  · obtain ⟨o, ho, hne, hs⟩ := hinv d hd
    exact ⟨o, hhold d hd o ho, hne, fun hso => by rw [hasScope_congr hsc]; exact hs hso⟩
  · exact absurd (holderIs_unique (hhold d hd o ho) ho') hne

theorem inv_of_ledger_scopes_eq {s s' : State} (hinv : Inv s) (hl : s'.ledger = s.ledger)
    (hs : s'.scopes = s.scopes) : Inv s' := by
  intro d hdd
  obtain ⟨o, ho, hne, hsc⟩ := hinv d hdd
  exact ⟨o, by rw [hl]; exact ho, hne, fun hso => by rw [hasScope_congr hs]; exact hsc hso⟩

theorem deleteGrant_eq {s s' : State} {gr ge : Addr} {mt : MsgType} (h : deleteGrant s gr ge mt = .ok s') :
    s'.ledger = s.ledger ∧ s'.scopes = s.scopes := by
  unfold deleteGrant at h
  split at h
  · simp at h
  · simp at h; subst h; exact ⟨rfl, rfl⟩

theorem setAccess_eq {s s' : State} {m a : Addr} {ps : List Access} (h : setAccess s m a ps = .ok s') :
    s'.ledger = s.ledger ∧ s'.scopes = s.scopes := by
  unfold setAccess at h
  split at h
  · simp at h
  · simp at h; subst h; exact ⟨rfl, rfl⟩

theorem setStatus_eq {s s' : State} {m : Addr} {st : MStatus} (h : setStatus s m st = .ok s') :
    s'.ledger = s.ledger ∧ s'.scopes = s.scopes := by
  unfold setStatus at h
  split at h
  · simp at h
  · simp at h; subst h; exact ⟨rfl, rfl⟩

theorem setStatus_grants {s s' : State} {m : Addr} {st : MStatus} (h : setStatus s m st = .ok s') :
    s'.grants = s.grants := by
  unfold setStatus at h
  split at h
  · simp at h
  · simp at h; subst h; rfl

end PvProofs.VownerL
