/-
Helper lemmas for C01: `allocatePrice` is total and exact.  The invariant is `Consumes`: what a trace
takes from the bids (per index) is exactly what is missing from the list of remaining bid prices the
loops carry; the leftover loop keeps `Σ remaining = leftover`, so it stops with every bid used up and
cannot reach the "no bid orders left" panic; `loopMeasure` bounds the number of rounds (fuel).
-/
import PvProofs.Lemmas.SettleClose
namespace PvProofs.Settle
open PvModel PvModel.Settle PvModel.Coins

/-- `slot b l j`: the element of `l` that belongs to index `j` when `l`'s head has index `b` (0 outside) -/
def slot (b : Nat) (l : List Int) (j : Nat) : Int := if b ≤ j then l.getD (j - b) 0 else 0

@[simp] theorem slot_nil (b j : Nat) : slot b [] j = 0 := by simp [slot]

theorem slot_cons (b : Nat) (y : Int) (ys : List Int) (j : Nat) :
    slot b (y :: ys) j = if j = b then y else slot (b + 1) ys j := by
  unfold slot
  by_cases h1 : j = b
  · subst h1; simp
  · by_cases h2 : b ≤ j
    · have h3 : b + 1 ≤ j := by omega
      have : j - b = (j - (b + 1)) + 1 := by omega
      simp [h1, h2, h3, this]
    · have h3 : ¬ b + 1 ≤ j := by omega
      simp [h1, h2, h3]

theorem slot_lt (b : Nat) (l : List Int) (j : Nat) (h : j < b) : slot b l j = 0 := by
  unfold slot; rw [if_neg (by omega)]

theorem slot_zero_eq (l : List Int) (j : Nat) : slot 0 l j = l.getD j 0 := by simp [slot]

theorem filledB_nil (j : Nat) : filledB [] j = 0 := rfl
theorem filledA_nil (j : Nat) : filledA [] j = 0 := rfl

theorem filledB_cons (e : Tr) (t : List Tr) (j : Nat) :
    filledB (e :: t) j = (if e.bid = j then e.amt else 0) + filledB t j := by
  unfold filledB
  rw [List.filter_cons]
  by_cases h : e.bid = j <;> simp [h]

theorem filledA_cons (e : Tr) (t : List Tr) (j : Nat) :
    filledA (e :: t) j = (if e.ask = j then e.amt else 0) + filledA t j := by
  unfold filledA
  rw [List.filter_cons]
  by_cases h : e.ask = j <;> simp [h]

theorem filledB_append (t u : List Tr) (j : Nat) : filledB (t ++ u) j = filledB t j + filledB u j := by
  simp [filledB]

theorem filledA_append (t u : List Tr) (j : Nat) : filledA (t ++ u) j = filledA t j + filledA u j := by
  simp [filledA]

/-- the trace `t` takes from the bids `ys` (head at index `b`) exactly what is missing in `r` (head at `b'`) -/
def Consumes (t : List Tr) (b : Nat) (ys : List Int) (b' : Nat) (r : List Int) : Prop :=
  ∀ j, filledB t j + slot b' r j = slot b ys j

theorem Consumes.refl (b : Nat) (ys : List Int) : Consumes [] b ys b ys := by
  intro j; simp [filledB_nil]

theorem Consumes.trans {t u : List Tr} {b b1 b2 : Nat} {ys r1 r2 : List Int}
    (h1 : Consumes t b ys b1 r1) (h2 : Consumes u b1 r1 b2 r2) : Consumes (t ++ u) b ys b2 r2 := by
  intro j
  have := h1 j
  have := h2 j
  rw [filledB_append]; omega

def AllPos (l : List Int) : Prop := ∀ y ∈ l, 0 < y

theorem AllPos.sum_nonneg {l : List Int} (h : AllPos l) : 0 ≤ l.sum := by
  induction l with
  | nil => simp
  | cons a t ih =>
    have := h a (by simp)
    have := ih (fun y hy => h y (by simp [hy]))
    simp only [List.sum_cons]; omega

theorem AllPos.sum_pos {l : List Int} (h : AllPos l) (hne : l ≠ []) : 0 < l.sum := by
  cases l with
  | nil => simp at hne
  | cons a t =>
    have := h a (by simp)
    have := AllPos.sum_nonneg (l := t) (fun y hy => h y (by simp [hy]))
    simp only [List.sum_cons]; omega

theorem AllPos.tail {a : Int} {l : List Int} (h : AllPos (a :: l)) : AllPos l :=
  fun y hy => h y (by simp [hy])

/-- what `firstPassAsk` does, given positive bids: it never fails except by running out of bids;
otherwise the ask receives exactly `p` -/
theorem firstPassAsk_spec {a : Nat} {p : Int} {b : Nat} {ys : List Int} (hp : 0 < p) (hys : AllPos ys) :
    (∀ e, firstPassAsk a p b ys = .error e → e = .panicIndex ∧ ys.sum < p) ∧
    (∀ t b' r, firstPassAsk a p b ys = .ok (t, b', r) →
      Consumes t b ys b' r ∧ AllPos r ∧ sumTr (·.amt) t = p ∧ sumTr (·.amt) t + r.sum = ys.sum ∧
      (∀ e ∈ t, e.ask = a ∧ 0 < e.amt)) := by
  induction ys generalizing p b with
  | nil =>
    simp only [firstPassAsk, hp, if_true]
    exact ⟨by intro e h; simp at h; exact ⟨h.symm, by simpa using hp⟩, by intro t b' r h; simp at h⟩
  | cons l rest ih =>
    have hl : 0 < l := hys l (by simp)
    have hrest := hys.tail
    simp only [firstPassAsk, hp, hl, and_self, if_true]
    by_cases hle : l ≤ p
    · simp only [hle, if_true]
      by_cases heq : p - l = 0
      · -- the ask is filled exactly by this bid: the recursive call stops at once
        have hp' : p = l := by omega
        subst hp'
        have hz : ∀ b (ys : List Int), firstPassAsk a (p - p) b ys = .ok ([], b, ys) := by
          intro b ys
          cases ys with
          | nil => simp [firstPassAsk]
          | cons y ys' => simp [firstPassAsk]
        rw [hz]
        refine ⟨by intro e h; simp at h, ?_⟩
        intro t b' r h
        simp only [Except.ok.injEq, Prod.mk.injEq] at h
        obtain ⟨rfl, rfl, rfl⟩ := h
        refine ⟨?_, hrest, by simp, by simp, ?_⟩
        · intro j
          rw [filledB_cons, filledB_nil, slot_cons]
          by_cases hj : j = b
          · subst hj; simp [slot_lt]
          · have : ¬ b = j := fun h => hj h.symm
            simp [hj, this]
        · intro e he; simp at he; subst he; exact ⟨rfl, hl⟩
      · have hp' : 0 < p - l := by omega
        obtain ⟨ie, io⟩ := @ih (p - l) (b + 1) hp' hrest
        refine ⟨?_, ?_⟩
        · intro e h
          split at h
          · rename_i e' he'
            simp only [Except.error.injEq] at h; subst h
            obtain ⟨h1, h2⟩ := ie e' he'
            exact ⟨h1, by simp only [List.sum_cons]; omega⟩
          · simp at h
        · intro t b' r h
          split at h; · simp at h
          rename_i t' b'' r' hrec
          simp only [Except.ok.injEq, Prod.mk.injEq] at h
          obtain ⟨rfl, rfl, rfl⟩ := h
          obtain ⟨c1, c2, c3, c4, c5⟩ := io t' b'' r' hrec
          refine ⟨?_, c2, by simp [c3], by simp only [sumTr_cons, List.sum_cons]; omega, ?_⟩
          · intro j
            have := c1 j
            rw [filledB_cons, slot_cons]
            by_cases hj : j = b
            · subst hj
              rw [slot_lt (j + 1) rest j (by omega)] at this
              simp; omega
            · have : ¬ b = j := fun h => hj h.symm
              simp [hj, this]; omega
          · intro e he
            simp only [List.mem_cons] at he
            rcases he with rfl | he
            · exact ⟨rfl, hl⟩
            · exact c5 e he
    · simp only [hle, if_false]
      refine ⟨by intro e h; simp at h, ?_⟩
      intro t b' r h
      simp only [Except.ok.injEq, Prod.mk.injEq] at h
      obtain ⟨rfl, rfl, rfl⟩ := h
      refine ⟨?_, ?_, by simp, by simp; omega, ?_⟩
      · intro j
        rw [filledB_cons, filledB_nil, slot_cons, slot_cons]
        by_cases hj : j = b
        · subst hj; simp
        · have : ¬ b = j := fun h => hj h.symm
          simp [hj, this]
      · intro y hy
        simp only [List.mem_cons] at hy
        rcases hy with rfl | hy
        · omega
        · exact hrest y hy
      · intro e he; simp at he; subst he; exact ⟨rfl, hp⟩


theorem filledA_of_all_ask {t : List Tr} {a : Nat} (h : ∀ e ∈ t, e.ask = a) (k : Nat) :
    filledA t k = if k = a then sumTr (·.amt) t else 0 := by
  induction t with
  | nil => simp [filledA_nil]
  | cons e t ih =>
    have he := h e (by simp)
    have := ih (fun e' he' => h e' (by simp [he']))
    rw [filledA_cons, this, he, sumTr_cons]
    by_cases hk : k = a
    · subst hk; simp
    · have : ¬ a = k := fun h => hk h.symm
      simp [hk, this]

/-- the whole first pass, when the bids can pay all asks: no failure, every ask receives exactly its
price, the bids are consumed from the front -/
theorem firstPass_spec {a : Nat} {ps : List Int} {b : Nat} {ys : List Int} (hps : AllPos ps) (hys : AllPos ys)
    (hsum : ps.sum ≤ ys.sum) :
    ∃ t b' r, firstPass a ps b ys = .ok (t, b', r) ∧
      Consumes t b ys b' r ∧ AllPos r ∧ sumTr (·.amt) t = ps.sum ∧ sumTr (·.amt) t + r.sum = ys.sum ∧
      (∀ k, filledA t k = slot a ps k) ∧ (∀ e ∈ t, 0 < e.amt) := by
  induction ps generalizing a b ys with
  | nil =>
    exact ⟨[], b, ys, rfl, Consumes.refl b ys, hys, rfl, by simp, by intro k; simp [filledA_nil], by intro e he; simp at he⟩
  | cons p ps ih =>
    have hp : 0 < p := hps p (by simp)
    have hps' := hps.tail
    have hps0 := AllPos.sum_nonneg hps'
    simp only [List.sum_cons] at hsum
    obtain ⟨ie, io⟩ := @firstPassAsk_spec a p b ys hp hys
    cases h1 : firstPassAsk a p b ys with
    | error e => have := (ie e h1).2; omega
    | ok res =>
      obtain ⟨t1, b1, r1⟩ := res
      obtain ⟨c1, c2, c3, c4, c5⟩ := io t1 b1 r1 h1
      obtain ⟨t2, b2, r2, h2, d1, d2, d3, d4, d5, d6⟩ := @ih (a + 1) b1 r1 hps' c2 (by omega)
      refine ⟨t1 ++ t2, b2, r2, ?_, c1.trans d1, d2, ?_, ?_, ?_, ?_⟩
      · simp only [firstPass, h1, h2]
      · simp only [sumTr_append, List.sum_cons]; omega
      · simp only [sumTr_append]; omega
      · intro k
        rw [filledA_append, d5 k, filledA_of_all_ask (fun e he => (c5 e he).1) k, slot_cons, c3]
        by_cases hk : k = a
        · subst hk; simp [slot_lt]
        · simp [hk]
      · intro e he
        rcases List.mem_append.mp he with h | h
        · exact (c5 e h).2
        · exact d6 e h

/-- the inner loop of the leftover distribution (whole bids are used up while they fit) -/
theorem drain_spec {a : Nat} {add : Int} {b : Nat} {ys : List Int} (hys : AllPos ys) (hadd : 0 ≤ add)
    {t : List Tr} {add' : Int} {b' : Nat} {r : List Int} (h : drain a add b ys = (t, add', b', r)) :
    Consumes t b ys b' r ∧ AllPos r ∧ sumTr (·.amt) t + r.sum = ys.sum ∧ add' = add - sumTr (·.amt) t ∧ 0 ≤ add' ∧
      (∀ e ∈ t, e.ask = a ∧ 0 < e.amt) ∧ (∀ l rest, r = l :: rest → add' ≠ 0 → add' < l) := by
  induction ys generalizing add b t add' b' r with
  | nil =>
    simp only [drain, Prod.mk.injEq] at h
    obtain ⟨rfl, rfl, rfl, rfl⟩ := h
    exact ⟨Consumes.refl _ _, hys, by simp, by simp, hadd, by intro e he; simp at he, by intro l rest h; simp at h⟩
  | cons l rest ih =>
    have hl : 0 < l := hys l (by simp)
    simp only [drain] at h
    split at h
    · rename_i hc
      generalize hd : drain a (add - l) (b + 1) rest = res at h
      obtain ⟨t', add'', b'', r'⟩ := res
      simp only [Prod.mk.injEq] at h
      obtain ⟨rfl, rfl, rfl, rfl⟩ := h
      obtain ⟨c1, c2, c3, c4, c5, c6, c7⟩ := ih hys.tail (by omega) hd
      refine ⟨?_, c2, by simp only [sumTr_cons, List.sum_cons]; omega, by simp only [sumTr_cons]; omega, c5, ?_, c7⟩
      · intro j
        have := c1 j
        rw [filledB_cons, slot_cons]
        by_cases hj : j = b
        · subst hj
          rw [slot_lt (j + 1) rest j (by omega)] at this
          simp; omega
        · have : ¬ b = j := fun h => hj h.symm
          simp [hj, this]; omega
      · intro e he
        simp only [List.mem_cons] at he
        rcases he with rfl | he
        · exact ⟨rfl, hl⟩
        · exact c6 e he
    · rename_i hc
      simp only [Prod.mk.injEq] at h
      obtain ⟨rfl, rfl, rfl, rfl⟩ := h
      refine ⟨Consumes.refl _ _, hys, by simp, by simp, hadd, by intro e he; simp at he, ?_⟩
      intro l' rest' h hne
      simp only [List.cons.injEq] at h
      obtain ⟨rfl, rfl⟩ := h
      simp only [not_and, not_le] at hc
      exact hc hne


/-- invariant of the leftover loop: the bids still to be used are positive and sum to what is left -/
structure LoopInv (af : List Int) (s : LoopSt) : Prop where
  pos : AllPos s.bids
  sum : s.bids.sum = s.lo
  nxt : s.nxt ≤ af.length

/-- the quantity that decreases in every round of the leftover loop -/
def loopMeasure (af : List Int) (s : LoopSt) : Nat :=
  s.lo.toNat + (if s.fp then af.length - s.nxt else 0)

theorem consumes_head (a b : Nat) (l x : Int) (rest : List Int) :
    Consumes [⟨a, b, x⟩] b (l :: rest) b ((l - x) :: rest) := by
  intro j
  rw [filledB_cons, filledB_nil, slot_cons, slot_cons]
  by_cases hj : j = b
  · subst hj; simp
  · have : ¬ b = j := fun h => hj h.symm
    simp [hj, this]

theorem leftoverStep_spec {TL TA : Int} {af : List Int} {s : LoopSt} (hTL : 0 ≤ TL) (hTA : 0 < TA)
    (haf : ∀ x ∈ af, 0 ≤ x) (hn : 0 < af.length) (hI : LoopInv af s) (hlo : s.lo ≠ 0) :
    (∀ e, leftoverStep TL TA af s = .error e → e = .overflow) ∧
    (∀ t s', leftoverStep TL TA af s = .ok (t, s') →
      Consumes t s.b s.bids s'.b s'.bids ∧ LoopInv af s' ∧ (∀ e ∈ t, 0 < e.amt) ∧
      loopMeasure af s' < loopMeasure af s) := by
  have hlo0 : 0 ≤ s.lo := by rw [← hI.sum]; exact hI.pos.sum_nonneg
  have hlo1 : 0 < s.lo := by omega
  have hne : s.bids ≠ [] := by
    intro h; have := hI.sum; rw [h] at this; simp at this; omega
  have hne' : s.bids.isEmpty = false := by simpa using hne
  have ha : (if s.nxt = af.length then 0 else s.nxt) < af.length := by have := hI.nxt; split <;> omega
  have hfp : (if s.nxt = af.length then false else s.fp) = true → s.fp = true ∧ s.nxt < af.length ∧
      (if s.nxt = af.length then 0 else s.nxt) = s.nxt := by
    have := hI.nxt
    split
    · intro h; simp at h
    · intro h; exact ⟨h, by omega, rfl⟩
  have hm : ∀ (lo' : Int) (a' : Nat), (if s.nxt = af.length then 0 else s.nxt) + 1 = a' → lo' < s.lo → 0 ≤ lo' →
      loopMeasure af ⟨a', (if s.nxt = af.length then false else s.fp), lo', 0, []⟩ < loopMeasure af s := by
    intro lo' a' ha' h1 h2
    unfold loopMeasure
    simp only
    have : lo'.toNat < s.lo.toNat := by omega
    by_cases hf : (if s.nxt = af.length then false else s.fp) = true
    · obtain ⟨f1, f2, f3⟩ := hfp hf
      rw [hf, f1, ← ha', f3]; simp only [if_true]; omega
    · have hf' : (if s.nxt = af.length then false else s.fp) = false := by simpa using hf
      rw [hf']; simp only [Bool.false_eq_true, if_false]; omega
  simp only [leftoverStep, hne', Bool.false_eq_true, if_false]
  generalize hfpv : (if s.nxt = af.length then false else s.fp) = fp' at *
  generalize hav : (if s.nxt = af.length then 0 else s.nxt) = a at *
  cases hmul : mul TL (af.getD a 0) with
  | error e =>
    simp only
    exact ⟨by intro e' h; simp at h; rw [← h]; exact (mul_error hmul).1, by intro t s' h; simp at h⟩
  | ok prod =>
    obtain ⟨rfl, _⟩ := mul_ok hmul
    have hprod : 0 ≤ TL * af.getD a 0 := by
      apply Int.mul_nonneg hTL
      have hlt : a < af.length := ha
      have : af.getD a 0 = af[a] := by simp [List.getD, hlt]
      rw [this]; exact haf _ (List.getElem_mem hlt)
    have hq : 0 ≤ (TL * af.getD a 0).tdiv TA := Int.tdiv_nonneg hprod (by omega)
    have hTA' : ¬ TA = 0 := by omega
    simp only [hTA', if_false]
    split
    · -- continue
      rename_i hc
      refine ⟨by intro e h; simp at h, ?_⟩
      intro t s' h
      simp only [Except.ok.injEq, Prod.mk.injEq] at h
      obtain ⟨rfl, rfl⟩ := h
      obtain ⟨f1, f2, f3⟩ := hfp hc.2
      refine ⟨Consumes.refl _ _, ⟨hI.pos, hI.sum, by simp; omega⟩, by intro e he; simp at he, ?_⟩
      unfold loopMeasure
      simp only [hc.2, f1, if_true, ← f3]
      omega
    · rename_i hc
      generalize hadd1 : (if (TL * af.getD a 0).tdiv TA = 0 then 1 else (TL * af.getD a 0).tdiv TA) = add1
      have h1 : 1 ≤ add1 := by rw [← hadd1]; split <;> omega
      generalize hadd : (if add1 ≤ s.lo then add1 else s.lo) = add
      have h2 : 1 ≤ add ∧ add ≤ s.lo := by rw [← hadd]; split <;> omega
      generalize hd : drain a add s.b s.bids = res
      obtain ⟨t1, add', b', r⟩ := res
      obtain ⟨c1, c2, c3, c4, c5, c6, c7⟩ := drain_spec hI.pos (by omega) hd
      have hsum := hI.sum
      cases r with
      | nil =>
        simp only
        refine ⟨by intro e h; simp at h, ?_⟩
        intro t s' h
        simp only [Except.ok.injEq, Prod.mk.injEq] at h
        obtain ⟨rfl, rfl⟩ := h
        simp only [List.sum_nil] at c3
        refine ⟨c1, ⟨by intro y hy; simp at hy, by simp; omega, by simp; omega⟩, fun e he => (c6 e he).2, ?_⟩
        have := hm (s.lo - (add - add')) (a + 1) rfl (by omega) (by omega)
        unfold loopMeasure at this ⊢
        simpa using this
      | cons l rest =>
        simp only
        have hl : 0 < l := c2 l (by simp)
        simp only [List.sum_cons] at c3
        by_cases hz : add' = 0
        · simp only [hz, ne_eq, not_true_eq_false, if_false]
          refine ⟨by intro e h; simp at h, ?_⟩
          intro t s' h
          simp only [Except.ok.injEq, Prod.mk.injEq] at h
          obtain ⟨rfl, rfl⟩ := h
          refine ⟨c1, ⟨c2, by simp; omega, by simp; omega⟩, fun e he => (c6 e he).2, ?_⟩
          have := hm (s.lo - add) (a + 1) rfl (by omega) (by omega)
          unfold loopMeasure at this ⊢
          simpa using this
        · have hlt := c7 l rest rfl hz
          have hnz : ¬ l - add' = 0 := by omega
          simp only [hz, ne_eq, not_false_eq_true, if_true, hnz, if_false]
          refine ⟨by intro e h; simp at h, ?_⟩
          intro t s' h
          simp only [Except.ok.injEq, Prod.mk.injEq] at h
          obtain ⟨rfl, rfl⟩ := h
          refine ⟨c1.trans (consumes_head a b' l add' rest), ⟨?_, by simp; omega, by simp; omega⟩, ?_, ?_⟩
          · intro y hy
            simp only [List.mem_cons] at hy
            rcases hy with rfl | hy
            · omega
            · exact c2 y (by simp [hy])
          · intro e he
            rcases List.mem_append.mp he with h | h
            · exact (c6 e h).2
            · simp at h; subst h; simp; omega
          · have := hm (s.lo - add) (a + 1) rfl (by omega) (by omega)
            unfold loopMeasure at this ⊢
            simpa using this


theorem AllPos.eq_nil_of_sum_zero {l : List Int} (h : AllPos l) (hs : l.sum = 0) : l = [] := by
  by_contra hne
  have := h.sum_pos hne
  omega

theorem filledA_nonneg {t : List Tr} (h : ∀ e ∈ t, 0 < e.amt) (k : Nat) : 0 ≤ filledA t k := by
  induction t with
  | nil => simp [filledA_nil]
  | cons e t ih =>
    have := h e (by simp)
    have := ih (fun e' he' => h e' (by simp [he']))
    rw [filledA_cons]; split <;> omega

/-- the leftover loop with enough fuel: it can only fail by a 256-bit overflow, never by the
"no bid orders left" panic or by running out of fuel; on success every remaining bid is used up -/
theorem leftoverLoop_spec {TL TA : Int} {af : List Int} (hTL : 0 ≤ TL) (hTA : 0 < TA)
    (haf : ∀ x ∈ af, 0 ≤ x) (hn : 0 < af.length) (fuel : Nat) (s : LoopSt) (hI : LoopInv af s)
    (hfuel : loopMeasure af s ≤ fuel) :
    (∀ e, leftoverLoop TL TA af fuel s = .error e → e = .overflow) ∧
    (∀ t, leftoverLoop TL TA af fuel s = .ok t →
      ∃ b', Consumes t s.b s.bids b' [] ∧ (∀ e ∈ t, 0 < e.amt)) := by
  induction fuel generalizing s with
  | zero =>
    have hlo0 : 0 ≤ s.lo := by rw [← hI.sum]; exact hI.pos.sum_nonneg
    have : s.lo = 0 := by unfold loopMeasure at hfuel; omega
    have hb : s.bids = [] := hI.pos.eq_nil_of_sum_zero (by rw [hI.sum, this])
    simp only [leftoverLoop, this, if_true]
    refine ⟨by intro e h; simp at h, ?_⟩
    intro t h
    simp only [Except.ok.injEq] at h; subst h
    exact ⟨s.b, by rw [hb]; exact Consumes.refl _ _, by intro e he; simp at he⟩
  | succ fuel ih =>
    simp only [leftoverLoop]
    by_cases hz : s.lo = 0
    · have hb : s.bids = [] := hI.pos.eq_nil_of_sum_zero (by rw [hI.sum, hz])
      simp only [hz, if_true]
      refine ⟨by intro e h; simp at h, ?_⟩
      intro t h
      simp only [Except.ok.injEq] at h; subst h
      exact ⟨s.b, by rw [hb]; exact Consumes.refl _ _, by intro e he; simp at he⟩
    · simp only [hz, if_false]
      obtain ⟨se, so⟩ := leftoverStep_spec hTL hTA haf hn hI hz
      cases hstep : leftoverStep TL TA af s with
      | error e =>
        simp only
        exact ⟨by intro e' h; simp at h; rw [← h]; exact se e hstep, by intro t h; simp at h⟩
      | ok res =>
        obtain ⟨t1, s'⟩ := res
        obtain ⟨c1, c2, c3, c4⟩ := so t1 s' hstep
        obtain ⟨le, lo⟩ := ih s' c2 (by omega)
        simp only
        cases hrec : leftoverLoop TL TA af fuel s' with
        | error e =>
          simp only
          exact ⟨by intro e' h; simp at h; rw [← h]; exact le e hrec, by intro t h; simp at h⟩
        | ok t2 =>
          simp only
          refine ⟨by intro e h; simp at h, ?_⟩
          intro t h
          simp only [Except.ok.injEq] at h; subst h
          obtain ⟨b', d1, d2⟩ := lo t2 hrec
          refine ⟨b', c1.trans d1, ?_⟩
          intro e he
          rcases List.mem_append.mp he with h | h
          · exact c3 e h
          · exact d2 e h

/-- **`allocatePrice` is total and exact.**  For positive ask and bid prices and filled amounts it can
only fail with "total ask price greater than total bid price" or a 256-bit overflow — never with
the `bidOFs[b]` index panic, the "no bid orders left" panic, or out of fuel.  When it succeeds every
bid pays exactly its price and every ask receives at least its price. -/
theorem allocatePrice_spec {ap bp af : List Int} (hap : AllPos ap) (hbp : AllPos bp) (haf : AllPos af)
    (hlen : af.length = ap.length) (hn : 0 < ap.length) :
    (∀ e, allocatePrice ap bp af = .error e → e = .askGtBid ∨ e = .overflow) ∧
    (∀ t, allocatePrice ap bp af = .ok t →
      (∀ j, filledB t j = slot 0 bp j) ∧ (∀ k, slot 0 ap k ≤ filledA t k) ∧ (∀ e ∈ t, 0 < e.amt)) := by
  simp only [allocatePrice]
  by_cases hgt : ap.sum > bp.sum
  · simp only [hgt, if_true]
    exact ⟨by intro e h; simp at h; exact Or.inl h.symm, by intro t h; simp at h⟩
  · simp only [hgt, if_false]
    obtain ⟨t1, b1, r1, h1, c1, c2, c3, c4, c5, c6⟩ := @firstPass_spec 0 ap 0 bp hap hbp (by omega)
    simp only [h1]
    by_cases hdone : (t1.map (·.amt)).sum = bp.sum
    · simp only [hdone, if_true]
      refine ⟨by intro e h; simp at h, ?_⟩
      intro t h
      simp only [Except.ok.injEq] at h; subst h
      have hr : r1 = [] := c2.eq_nil_of_sum_zero (by unfold sumTr at c4; omega)
      subst hr
      refine ⟨fun j => by simpa using c1 j, fun k => by rw [c5 k], c6⟩
    · simp only [hdone, if_false]
      have hTLeq : bp.sum - (t1.map (·.amt)).sum = r1.sum := by unfold sumTr at c4; omega
      have hTL : 0 ≤ bp.sum - (t1.map (·.amt)).sum := by rw [hTLeq]; exact c2.sum_nonneg
      have hTA : 0 < af.sum := haf.sum_pos (by intro h; rw [h] at hlen; simp at hlen; omega)
      have hI : LoopInv af ⟨0, true, bp.sum - (t1.map (·.amt)).sum, b1, r1⟩ := ⟨c2, hTLeq.symm, by simp⟩
      obtain ⟨le, lo⟩ := leftoverLoop_spec hTL hTA (fun x hx => by have := haf x hx; omega) (by omega)
        (af.length + (bp.sum - (t1.map (·.amt)).sum).toNat + 2) _ hI (by unfold loopMeasure; simp; omega)
      cases hloop : leftoverLoop (bp.sum - (t1.map (·.amt)).sum) af.sum af
          (af.length + (bp.sum - (t1.map (·.amt)).sum).toNat + 2) ⟨0, true, bp.sum - (t1.map (·.amt)).sum, b1, r1⟩ with
      | error e =>
        simp only
        exact ⟨by intro e' h; simp at h; rw [← h]; exact Or.inr (le e hloop), by intro t h; simp at h⟩
      | ok t2 =>
        simp only
        refine ⟨by intro e h; simp at h, ?_⟩
        intro t h
        simp only [Except.ok.injEq] at h; subst h
        obtain ⟨b', d1, d2⟩ := lo t2 hloop
        refine ⟨fun j => by simpa using (c1.trans d1) j, ?_, ?_⟩
        · intro k
          rw [filledA_append, c5 k]
          have := filledA_nonneg d2 k
          omega
        · intro e he
          rcases List.mem_append.mp he with h | h
          · exact c6 e h
          · exact d2 e h

end PvProofs.Settle
