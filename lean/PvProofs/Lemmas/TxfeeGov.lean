/-
C08 helper lemmas: schedule lookups after the msgfees keeper's writes (`SetMsgFee`,
`RemoveMsgFee`) and after what a governance message says (`govSays`).
-/
import PvModel.TxfeeSpec

namespace PvProofs.TxfeeL
open PvModel PvModel.Txfee

/-- Lookup in a schedule (what `lookupFee` does with `cfg.sched`). -/
def lk (s : List (String × MsgFee)) (t : String) : Option MsgFee := (s.find? (·.1 = t)).map (·.2)

theorem lookupFee_eq (cfg : Cfg) (t : String) : lookupFee cfg t = lk cfg.sched t := rfl

theorem lk_nil (t : String) : lk [] t = none := rfl

theorem lk_cons (e : String × MsgFee) (s : List (String × MsgFee)) (t : String) :
    lk (e :: s) t = if e.1 = t then some e.2 else lk s t := by
  unfold lk
  by_cases h : e.1 = t
  · simp [List.find?, h]
  · simp [List.find?, h]

theorem lk_filter (s : List (String × MsgFee)) (t t' : String) :
    lk (s.filter (·.1 ≠ t)) t' = if t' = t then none else lk s t' := by
  induction s with
  | nil => simp [lk_nil]
  | cons e s ih =>
    by_cases he : e.1 = t
    · have : (e :: s).filter (·.1 ≠ t) = s.filter (·.1 ≠ t) := by simp [List.filter, he]
      rw [this, ih, lk_cons]
      by_cases ht : t' = t
      · simp [ht]
      · have : ¬ e.1 = t' := fun h => ht (by rw [← h, he])
        simp [ht, this]
    · have : (e :: s).filter (·.1 ≠ t) = e :: s.filter (·.1 ≠ t) := by simp [List.filter, he]
      rw [this, lk_cons, lk_cons, ih]
      by_cases ht : t' = t
      · subst ht
        simp [he]
      · simp [ht]

theorem lk_none_of_not_any (s : List (String × MsgFee)) (t : String)
    (h : s.any (·.1 = t) = false) : lk s t = none := by
  induction s with
  | nil => rfl
  | cons e s ih =>
    simp only [List.any_cons, Bool.or_eq_false_iff, decide_eq_false_iff_not] at h
    rw [lk_cons]; simp [h.1, ih h.2]

theorem any_of_lk_some (s : List (String × MsgFee)) (t : String) (f : MsgFee)
    (h : lk s t = some f) : s.any (·.1 = t) = true := by
  cases ha : s.any (·.1 = t) with
  | true => rfl
  | false => rw [lk_none_of_not_any s t ha] at h; cases h

theorem lk_append_new (s : List (String × MsgFee)) (t t' : String) (f : MsgFee)
    (h : s.any (·.1 = t) = false) :
    lk (s ++ [(t, f)]) t' = if t' = t then some f else lk s t' := by
  induction s with
  | nil =>
    simp only [List.nil_append, lk_cons, lk_nil]
    by_cases ht : t' = t
    · simp [ht]
    · have : ¬ t = t' := fun e => ht e.symm
      simp [ht, this]
  | cons e s ih =>
    simp only [List.any_cons, Bool.or_eq_false_iff, decide_eq_false_iff_not] at h
    simp only [List.cons_append, lk_cons, ih h.2]
    by_cases he : e.1 = t'
    · have : ¬ t' = t := fun e' => h.1 (by rw [he, e'])
      simp [he, this]
    · simp [he]

theorem map_replace_id (s : List (String × MsgFee)) (t : String) (f : MsgFee)
    (ha : s.any (·.1 = t) = false) : (s.map fun e => if e.1 = t then (t, f) else e) = s := by
  induction s with
  | nil => rfl
  | cons x s ihs =>
    simp only [List.any_cons, Bool.or_eq_false_iff, decide_eq_false_iff_not] at ha
    simp [ha.1, ihs ha.2]

theorem lk_replace (s : List (String × MsgFee)) (t t' : String) (f : MsgFee)
    (h : s.any (·.1 = t) = true) :
    lk (s.map fun e => if e.1 = t then (t, f) else e) t' = if t' = t then some f else lk s t' := by
  induction s with
  | nil => simp at h
  | cons e s ih =>
    simp only [List.map_cons, lk_cons]
    by_cases he : e.1 = t
    · simp only [he, if_true]
      by_cases ht : t' = t
      · simp [ht]
      · have h1 : ¬ t = t' := fun e' => ht e'.symm
        simp only [h1, ht, if_false]
        -- below the head the list may or may not contain `t` again
        cases ha : s.any (·.1 = t) with
        | true => rw [ih ha]; simp [ht]
        | false => rw [map_replace_id s t f ha]
    · simp only [he, if_false]
      have ha : s.any (·.1 = t) = true := by
        simp only [List.any_cons, he, decide_false, Bool.false_or] at h
        exact h
      rw [ih ha]
      by_cases ht : t' = t
      · subst ht
        simp [he]
      · simp [ht]

/-- `SetMsgFee`: afterwards the lookup of `t` is the new record, every other lookup is unchanged. -/
theorem lk_setMsgFee (s : List (String × MsgFee)) (t t' : String) (f : MsgFee) :
    lk (setMsgFee s t f) t' = if t' = t then some f else lk s t' := by
  unfold setMsgFee
  cases ha : s.any (·.1 = t) with
  | true => simp only [if_true]; exact lk_replace s t t' f ha
  | false => simp only [Bool.false_eq_true, if_false]; exact lk_append_new s t t' f ha

/-- What `govSays` writes for add / update: the same lookups. -/
theorem lk_says_set (s : List (String × MsgFee)) (t t' : String) (f : MsgFee) :
    lk ((t, f) :: s.filter (·.1 ≠ t)) t' = if t' = t then some f else lk s t' := by
  rw [lk_cons, lk_filter]
  by_cases ht : t' = t
  · simp [ht]
  · have : ¬ t = t' := fun e => ht e.symm
    simp [ht, this]

theorem determineBips_ok (r : Addr) (b : Option Nat) (n : Nat) (h : determineBips r b = .ok n) :
    n = govBips r b := by
  unfold determineBips at h
  unfold govBips
  by_cases hr : r = ""
  · simp [hr] at h ⊢; exact h.symm
  · simp only [hr, if_false] at h ⊢
    cases b with
    | none => simp at h ⊢; exact h.symm
    | some x =>
      simp only [Option.getD_some] at h ⊢
      by_cases hx : x > 10000
      · simp [hx] at h
      · simp only [hx, if_false] at h
        cases h; rfl

end PvProofs.TxfeeL
