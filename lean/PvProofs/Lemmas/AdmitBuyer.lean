/-
Helper lemmas for C20: the loop of `validateBuyerSettlementFee` characterised by positions of
the fee list, for arbitrary per-coin cover functions.
-/
import PvProofs.Lemmas.AdmitLookup
import Mathlib.Tactic.Tauto

namespace PvProofs.AdmitL
open PvModel PvModel.Admit PvModel.Fees PvProofs

theorem exists_mem_cons' {α : Type} {p : α → Prop} {a : α} {l : List α} :
    (∃ x, x ∈ a :: l ∧ p x) ↔ p a ∨ ∃ x, x ∈ l ∧ p x := by simp

section loop
variable (flats : List Coin) (ratios : List Ratio) (price : Coin)

/-- "one coin covers both, summed" for a coin that covers a flat option `f` and a ratio fee `r` -/
def SumOk (rc : Coin → Option Int) (c : Coin) : Prop :=
  ∀ f r, flatCover flats c = some f → rc c = some r → f + r ≤ c.2

/-- two positions (possibly the same, then summed) cover flat and ratio -/
def PosCover (rc : Coin → Option Int) (cs : List Coin) : Prop :=
  ∃ (i j : Nat) (c d : Coin), cs[i]? = some c ∧ cs[j]? = some d ∧
    (flatCover flats c).isSome ∧ (rc d).isSome ∧ (i = j → SumOk flats rc c)

theorem posCover_cons (rc : Coin → Option Int) (x : Coin) (xs : List Coin) :
    PosCover flats rc (x :: xs) ↔
      ((flatCover flats x).isSome ∧ (rc x).isSome ∧ SumOk flats rc x) ∨
      ((flatCover flats x).isSome ∧ ∃ d ∈ xs, (rc d).isSome) ∨
      ((rc x).isSome ∧ ∃ c ∈ xs, (flatCover flats c).isSome) ∨
      PosCover flats rc xs := by
  constructor
  · rintro ⟨i, j, c, d, hi, hj, hf, hr, hs⟩
    cases i with
    | zero =>
      simp only [List.getElem?_cons_zero, Option.some.injEq] at hi
      subst hi
      cases j with
      | zero =>
        simp only [List.getElem?_cons_zero, Option.some.injEq] at hj
        subst hj
        exact Or.inl ⟨hf, hr, hs rfl⟩
      | succ j =>
        simp only [List.getElem?_cons_succ] at hj
        exact Or.inr (Or.inl ⟨hf, d, List.mem_of_getElem? hj, hr⟩)
    | succ i =>
      simp only [List.getElem?_cons_succ] at hi
      cases j with
      | zero =>
        simp only [List.getElem?_cons_zero, Option.some.injEq] at hj
        subst hj
        exact Or.inr (Or.inr (Or.inl ⟨hr, c, List.mem_of_getElem? hi, hf⟩))
      | succ j =>
        simp only [List.getElem?_cons_succ] at hj
        exact Or.inr (Or.inr (Or.inr ⟨i, j, c, d, hi, hj, hf, hr, fun h => hs (by omega)⟩))
  · rintro (⟨hf, hr, hs⟩ | ⟨hf, d, hd, hr⟩ | ⟨hr, c, hc, hf⟩ | ⟨i, j, c, d, hi, hj, hf, hr, hs⟩)
    · exact ⟨0, 0, x, x, by simp, by simp, hf, hr, fun _ => hs⟩
    · obtain ⟨j, hj⟩ := List.mem_iff_getElem?.1 hd
      exact ⟨0, j + 1, x, d, by simp, by simpa using hj, hf, hr, fun h => by omega⟩
    · obtain ⟨i, hi⟩ := List.mem_iff_getElem?.1 hc
      exact ⟨i + 1, 0, c, x, by simpa using hi, by simp, hf, hr, fun h => by omega⟩
    · exact ⟨i + 1, j + 1, c, d, by simpa using hi, by simpa using hj, hf, hr,
        fun h => hs (by omega)⟩

/-- The loop with both kinds of fee required, from any state of the two flags. -/
theorem buyerLoop_both (rc : Coin → Option Int) (cs : List Coin)
    (hR : ∀ c ∈ cs, ratioCover ratios price c = .ok (rc c))
    (hS : ∀ c ∈ cs, ∀ f r, flatCover flats c = some f → rc c = some r → fits256 (f + r) = true)
    (fOk rOk : Bool) :
    ∃ b, buyerLoop flats ratios price true true fOk rOk cs = .ok b ∧
      (b = true ↔ PosCover flats rc cs ∨
        (fOk = true ∧ ∃ d ∈ cs, (rc d).isSome) ∨
        (rOk = true ∧ ∃ c ∈ cs, (flatCover flats c).isSome)) := by
  induction cs generalizing fOk rOk with
  | nil =>
    refine ⟨false, rfl, ?_⟩
    simp [PosCover]
  | cons x xs ih =>
    have hRx := hR x List.mem_cons_self
    have hSx := hS x List.mem_cons_self
    have hR' : ∀ c ∈ xs, ratioCover ratios price c = .ok (rc c) :=
      fun c hc => hR c (List.mem_cons_of_mem _ hc)
    have hS' : ∀ c ∈ xs, ∀ f r, flatCover flats c = some f → rc c = some r → fits256 (f + r) = true :=
      fun c hc => hS c (List.mem_cons_of_mem _ hc)
    rw [posCover_cons]
    simp only [exists_mem_cons']
    unfold buyerLoop
    simp only [if_true, Bool.not_true, Bool.false_or, hRx]
    cases hf : flatCover flats x with
    | none =>
      cases hr : rc x with
      | none =>
        -- the coin covers nothing
        obtain ⟨b, hb, hiff⟩ := ih hR' hS' fOk rOk
        refine ⟨b, by simpa using hb, ?_⟩
        rw [hiff]
        simp [hf, hr]
      | some r =>
        cases fOk with
        | true => exact ⟨true, by simp, by simp [hf, hr]⟩
        | false =>
          obtain ⟨b, hb, hiff⟩ := ih hR' hS' false true
          refine ⟨b, by simpa using hb, ?_⟩
          rw [hiff]
          generalize PosCover flats rc xs = A
          generalize (∃ d ∈ xs, (rc d).isSome) = B
          generalize (∃ c ∈ xs, (flatCover flats c).isSome) = C
          simp [hf, hr]
          tauto
    | some f =>
      cases rOk with
      | true => exact ⟨true, by simp, by simp [hf]⟩
      | false =>
        cases hr : rc x with
        | none =>
          obtain ⟨b, hb, hiff⟩ := ih hR' hS' true false
          refine ⟨b, by simpa using hb, ?_⟩
          rw [hiff]
          generalize PosCover flats rc xs = A
          generalize (∃ d ∈ xs, (rc d).isSome) = B
          generalize (∃ c ∈ xs, (flatCover flats c).isSome) = C
          simp [hf, hr]
          tauto
        | some r =>
          cases fOk with
          | true => exact ⟨true, by simp, by simp [hf, hr]⟩
          | false =>
            have hfit := hSx f r hf hr
            by_cases hsum : x.2 < f + r
            · obtain ⟨b, hb, hiff⟩ := ih hR' hS' true true
              refine ⟨b, by simp [add256, hfit, hsum]; exact hb, ?_⟩
              rw [hiff]
              have hns : ¬ SumOk flats rc x := fun h => by
                have := h f r hf hr; omega
              generalize PosCover flats rc xs = A
              generalize (∃ d ∈ xs, (rc d).isSome) = B
              generalize (∃ c ∈ xs, (flatCover flats c).isSome) = C
              simp [hf, hr, hns]
              tauto
            · refine ⟨true, by simp [add256, hfit, hsum], ?_⟩
              have hs : SumOk flats rc x := by
                intro f' r' hf' hr'
                rw [hf] at hf'; rw [hr] at hr'
                cases hf'; cases hr'; omega
              simp [hf, hr, hs]

/-- Only a flat fee is required. -/
theorem buyerLoop_flatOnly (cs : List Coin) (fOk rOk : Bool) :
    ∃ b, buyerLoop flats ratios price true false fOk rOk cs = .ok b ∧
      (b = true ↔ ∃ c ∈ cs, (flatCover flats c).isSome) := by
  induction cs generalizing fOk rOk with
  | nil => exact ⟨false, rfl, by simp⟩
  | cons x xs ih =>
    unfold buyerLoop
    cases hf : flatCover flats x with
    | none =>
      obtain ⟨b, hb, hiff⟩ := ih fOk rOk
      exact ⟨b, by simpa [hf] using hb, by simp [hiff, hf]⟩
    | some f => exact ⟨true, by simp, by simp [hf]⟩

/-- Only a ratio fee is required. -/
theorem buyerLoop_ratioOnly (rc : Coin → Option Int) (cs : List Coin)
    (hR : ∀ c ∈ cs, ratioCover ratios price c = .ok (rc c)) (fOk rOk : Bool) :
    ∃ b, buyerLoop flats ratios price false true fOk rOk cs = .ok b ∧
      (b = true ↔ ∃ c ∈ cs, (rc c).isSome) := by
  induction cs generalizing fOk rOk with
  | nil => exact ⟨false, rfl, by simp⟩
  | cons x xs ih =>
    have hRx := hR x List.mem_cons_self
    have hR' : ∀ c ∈ xs, ratioCover ratios price c = .ok (rc c) :=
      fun c hc => hR c (List.mem_cons_of_mem _ hc)
    unfold buyerLoop
    cases hr : rc x with
    | none =>
      obtain ⟨b, hb, hiff⟩ := ih hR' fOk rOk
      exact ⟨b, by simpa [hRx, hr] using hb, by simp [hiff, hr]⟩
    | some r => exact ⟨true, by simp [hRx, hr], by simp [hr]⟩

end loop

end PvProofs.AdmitL
