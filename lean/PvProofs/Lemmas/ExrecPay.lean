/-
Helper lemmas for C13: payment handlers preserve the invariant.
-/
import PvProofs.Lemmas.ExrecSteps

namespace PvProofs.Exrec
open PvModel.Exrec

theorem mem_payKeys {p : Payment} {k : Bytes} : k ∈ (paymentIndexEntries p).map (·.1) ↔
    p.target ≠ [] ∧ k = idxTargetToPayment p.target p.source p.ext := by
  unfold paymentIndexEntries
  by_cases h : p.target = [] <;> simp [h]

theorem getPaymentFromStore_eq {s : Store} {src e : Bytes} {p : Payment}
    (h : getPaymentFromStore s src e = some p) : s.get (keyPayment src e) = some (.payment p) := by
  unfold getPaymentFromStore at h
  split at h
  · next p' hv => cases h; exact hv
  · cases h

theorem getPaymentFromStore_none {s : Store} (hinv : PayInvF s.get) {src e : Bytes}
    (h : getPaymentFromStore s src e = none) : s.get (keyPayment src e) = none := by
  unfold getPaymentFromStore at h
  cases hv : s.get (keyPayment src e) with
  | none => rfl
  | some v =>
    obtain ⟨p, rfl, _⟩ := hinv.pay_key _ _ hv
    rw [hv] at h; cases h

theorem get_setPaymentInStore {s : Store} (hinv : PayInvF s.get) (p : Payment) (k : Bytes) :
    (setPaymentInStore s p).get k =
      if k = keyPayment p.source p.ext then some (.payment p)
      else if k ∈ (paymentIndexEntries p).map (·.1) then some .empty
      else if (∃ q, getPaymentFromStore s p.source p.ext = some q ∧ k ∈ (paymentIndexEntries q).map (·.1)) then none
      else s.get k := by
  unfold setPaymentInStore
  cases hex : getPaymentFromStore s p.source p.ext with
  | none =>
    simp only [reduceCtorEq, false_and, exists_false, ↓reduceIte, mem_payKeys]
    by_cases ht : p.target = []
    · simp [ht, get_set]
    · simp only [ne_eq, ht, not_false_eq_true, ↓reduceIte, get_set, true_and]
      split_ifs <;> simp_all [idxTargetToPayment, keyPayment]
  | some ex =>
    have hrec := getPaymentFromStore_eq hex
    obtain ⟨hs, he⟩ := hinv.record_key hrec
    simp only [Option.some.injEq, exists_eq_left', mem_payKeys]
    by_cases hxt : ex.target = []
    · simp only [hxt, ↓reduceIte, ne_eq, not_true_eq_false, false_and]
      by_cases ht : p.target = []
      · simp [ht, get_set]
      · simp only [ne_eq, ht, not_false_eq_true, ↓reduceIte, get_set, true_and]
        split_ifs <;> simp_all [idxTargetToPayment, keyPayment]
    · by_cases hsame : ex.target = p.target ∧ ex.targetUp = p.targetUp
      · have ht : p.target ≠ [] := hsame.1 ▸ hxt
        rw [if_neg hxt, if_pos hsame]
        simp only [ne_eq, ht, not_false_eq_true, ↓reduceIte, get_set, true_and, hsame.1]
        have hidx := hinv.pay_indexed ex (by rw [hs, he]; exact hrec) _ (mem_paymentIndexEntries.mpr ⟨hxt, rfl⟩)
        rw [hs, he, hsame.1] at hidx
        simp only at hidx
        split_ifs <;> simp_all [idxTargetToPayment, keyPayment]
      · -- a different target STRING: another account, or the same account re-spelled (then the entry
        -- deleted and the entry written are the same key, and it is written last)
        rw [if_neg hxt, if_neg hsame]
        simp only [ne_eq, not_false_eq_true, true_and, hs, he, hxt]
        by_cases ht : p.target = []
        · simp only [ht, ne_eq, not_true_eq_false, ↓reduceIte, get_del, get_set, false_and]
          split_ifs <;> simp_all [idxTargetToPayment, keyPayment]
        · simp only [ne_eq, ht, not_false_eq_true, ↓reduceIte, get_set, get_del, true_and]
          split_ifs <;> simp_all [idxTargetToPayment, keyPayment]

theorem payInv_setPaymentInStore {s : Store} (hinv : PayInvF s.get) (p : Payment) :
    PayInvF (setPaymentInStore s p).get := by
  refine hinv.setPayment (p := p) (getPaymentFromStore s p.source p.ext) ?_ (fun k => ?_)
  · cases hex : getPaymentFromStore s p.source p.ext with
    | none => exact getPaymentFromStore_none hinv hex
    | some q => exact getPaymentFromStore_eq hex
  · rw [get_setPaymentInStore hinv]

theorem touches_setPaymentInStore {s : Store} (hinv : PayInvF s.get) (p : Payment) :
    Touches s (setPaymentInStore s p) payHeads := by
  intro k hk
  rw [get_setPaymentInStore hinv] at hk
  split_ifs at hk with h1 h2 h3
  · exact ⟨112, by simp [payHeads], h1 ▸ rfl⟩
  · exact ⟨16, by simp [payHeads], (mem_payKeys.mp h2).2 ▸ rfl⟩
  · obtain ⟨q, _, hq⟩ := h3
    exact ⟨16, by simp [payHeads], (mem_payKeys.mp hq).2 ▸ rfl⟩
  · exact absurd rfl hk

theorem get_deletePaymentFromStore (s : Store) (p : Payment) (k : Bytes) :
    (deletePaymentFromStore s p).get k =
      if k = keyPayment p.source p.ext ∨ k ∈ (paymentIndexEntries p).map (·.1) then none else s.get k := by
  unfold deletePaymentFromStore
  simp only [mem_payKeys]
  by_cases ht : p.target = []
  · simp [ht, get_del]
  · simp only [ne_eq, ht, not_false_eq_true, ↓reduceIte, get_del, true_and]
    split_ifs <;> simp_all

theorem touches_deletePaymentFromStore (s : Store) (p : Payment) :
    Touches s (deletePaymentFromStore s p) payHeads := by
  intro k hk
  rw [get_deletePaymentFromStore] at hk
  split_ifs at hk with h
  · rcases h with rfl | h
    · exact ⟨112, by simp [payHeads], rfl⟩
    · exact ⟨16, by simp [payHeads], (mem_payKeys.mp h).2 ▸ rfl⟩
  · exact absurd rfl hk

theorem payInv_deletePaymentFromStore {s : Store} (hinv : PayInvF s.get) {p : Payment}
    (hp : s.get (keyPayment p.source p.ext) = some (.payment p) ∨ s.get (keyPayment p.source p.ext) = none) :
    PayInvF (deletePaymentFromStore s p).get :=
  hinv.deletePayment hp (get_deletePaymentFromStore s p)

/-- the pair "payment half holds, and nothing was added w.r.t. `s0`" is kept by every deletion of a
payment that was stored in `s0` -/
theorem foldl_deletePayments {s0 : Store} (ps : List Payment)
    (hps : ∀ p ∈ ps, s0.get (keyPayment p.source p.ext) = some (.payment p)) :
    ∀ s : Store, PayInvF s.get → (∀ k v, s.get k = some v → s0.get k = some v) →
      PayInvF (ps.foldl deletePaymentFromStore s).get ∧ Touches s (ps.foldl deletePaymentFromStore s) payHeads := by
  induction ps with
  | nil => intro s h _; exact ⟨h, Touches.refl _ _⟩
  | cons p r ih =>
    intro s h hsub
    have hp : s.get (keyPayment p.source p.ext) = some (.payment p) ∨ s.get (keyPayment p.source p.ext) = none := by
      cases hv : s.get (keyPayment p.source p.ext) with
      | none => exact Or.inr rfl
      | some v =>
        have := hsub _ _ hv
        rw [hps p (List.mem_cons_self ..)] at this
        cases this; exact Or.inl rfl
    have h1 := payInv_deletePaymentFromStore h hp
    have hsub1 : ∀ k v, (deletePaymentFromStore s p).get k = some v → s0.get k = some v := by
      intro k v hv
      rw [get_deletePaymentFromStore] at hv
      split_ifs at hv
      exact hsub k v hv
    obtain ⟨h2, t2⟩ := ih (fun q hq => hps q (List.mem_cons_of_mem _ hq)) _ h1 hsub1
    exact ⟨h2, (touches_deletePaymentFromStore s p).trans t2⟩

theorem mem_of_mapM_some {α β : Type} (f : α → Option β) : ∀ (l : List α) (ys : List β),
    l.mapM f = some ys → ∀ y ∈ ys, ∃ x ∈ l, f x = some y := by
  intro l
  induction l with
  | nil => intro ys h y hy; simp at h; subst h; cases hy
  | cons a r ih =>
    intro ys h y hy
    simp only [List.mapM_cons] at h
    cases hfa : f a with
    | none => simp [hfa] at h
    | some b =>
      cases hr : r.mapM f with
      | none => simp [hfa, hr] at h
      | some bs =>
        simp [hfa, hr] at h
        subst h
        rcases List.mem_cons.mp hy with rfl | hy
        · exact ⟨a, List.mem_cons_self .., hfa⟩
        · obtain ⟨x, hx, hfx⟩ := ih bs hr y hy
          exact ⟨x, List.mem_cons_of_mem _ hx, hfx⟩

/-- all payment handlers: the payment half of the invariant is kept and only payment keys change -/
theorem pay_createPayment {s s' : Store} {p : Payment} (hinv : PayInvF s.get) (h : createPayment s p = some s') :
    PayInvF s'.get ∧ Touches s s' payHeads := by
  unfold createPayment at h
  split_ifs at h
  cases h
  exact ⟨payInv_setPaymentInStore hinv p, touches_setPaymentInStore hinv p⟩

theorem pay_updatePaymentTarget {s s' : Store} {src e t : Bytes} (hinv : PayInvF s.get)
    (h : updatePaymentTarget s src e t = some s') : PayInvF s'.get ∧ Touches s s' payHeads := by
  unfold updatePaymentTarget at h
  split_ifs at h
  split at h
  · cases h
  · split_ifs at h
    cases h
    exact ⟨payInv_setPaymentInStore hinv _, touches_setPaymentInStore hinv _⟩

theorem pay_acceptPayment {s s' : Store} {src e t : Bytes} {su tu : Bool} (hinv : PayInvF s.get)
    (h : acceptPayment s src e t su tu = some s') : PayInvF s'.get ∧ Touches s s' payHeads := by
  unfold acceptPayment at h
  split_ifs at h
  split at h
  · cases h
  · next ex hex =>
    split_ifs at h
    cases h
    have hrec := getPaymentFromStore_eq hex
    obtain ⟨hs, he⟩ := hinv.record_key hrec
    exact ⟨payInv_deletePaymentFromStore hinv (Or.inl (by rw [hs, he]; exact hrec)), touches_deletePaymentFromStore s ex⟩

theorem pay_rejectPayment {s s' : Store} {src e t : Bytes} (hinv : PayInvF s.get)
    (h : rejectPayment s t src e = some s') : PayInvF s'.get ∧ Touches s s' payHeads := by
  unfold rejectPayment at h
  split_ifs at h
  split at h
  · cases h
  · next ex hex =>
    split_ifs at h
    cases h
    have hrec := getPaymentFromStore_eq hex
    obtain ⟨hs, he⟩ := hinv.record_key hrec
    exact ⟨payInv_deletePaymentFromStore hinv (Or.inl (by rw [hs, he]; exact hrec)), touches_deletePaymentFromStore s ex⟩

theorem pay_cancelPayments {s s' : Store} {src : Bytes} {es : List Bytes} (hinv : PayInvF s.get)
    (h : cancelPayments s src es = some s') : PayInvF s'.get ∧ Touches s s' payHeads := by
  unfold cancelPayments at h
  split_ifs at h
  split at h
  · cases h
  · next ps hps =>
    cases h
    refine foldl_deletePayments ps (fun p hp => ?_) s hinv (fun _ _ h => h)
    obtain ⟨e, _, hfe⟩ := mem_of_mapM_some _ _ _ hps p hp
    have hrec := getPaymentFromStore_eq hfe
    obtain ⟨hs, he⟩ := hinv.record_key hrec
    rw [hs, he]; exact hrec

theorem pay_rejectPayments {s s' : Store} {t : Bytes} {srcs : List (Bytes × Bool)} (hinv : PayInvF s.get)
    (h : rejectPayments s t srcs = some s') : PayInvF s'.get ∧ Touches s s' payHeads := by
  unfold rejectPayments at h
  dsimp only at h
  split_ifs at h
  cases h
  refine foldl_deletePayments _ (fun p hp => ?_) s hinv (fun _ _ h => h)
  obtain ⟨l, hl, hpl⟩ := List.mem_flatten.mp hp
  obtain ⟨src, _, rfl⟩ := List.mem_map.mp hl
  unfold getPaymentsForTargetAndSource at hpl
  split_ifs at hpl
  · cases hpl
  · obtain ⟨e, _, hfe⟩ := List.mem_filterMap.mp hpl
    have hrec := getPaymentFromStore_eq hfe
    obtain ⟨hs, he⟩ := hinv.record_key hrec
    rw [hs, he]; exact hrec

end PvProofs.Exrec
