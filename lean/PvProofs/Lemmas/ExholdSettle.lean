/-
C02 helper lemmas, part 2: `Order.Split`, the asset plan of a settlement, `closeSettlement`,
market settlement and user fills.
-/
import PvProofs.Lemmas.ExholdOps
import Mathlib.Data.List.Nodup
import Mathlib.Tactic.Tauto
namespace PvProofs.Exhold
open PvModel PvModel.Exhold

theorem tdiv_mul_le {x f a : Int} (hx : 0 ≤ x) (hf : 0 < f) (hfa : f ≤ a) : (x * f).tdiv a ≤ x := by
  have ha : 0 < a := by omega
  have hxf : 0 ≤ x * f := Int.mul_nonneg hx (by omega)
  rw [Int.tdiv_eq_ediv_of_nonneg hxf]
  apply Int.ediv_le_of_le_mul ha
  exact Int.mul_le_mul_of_nonneg_left hfa hx

theorem tdiv_mul_nonneg {x f a : Int} (hx : 0 ≤ x) (hf : 0 < f) (ha : 0 < a) : 0 ≤ (x * f).tdiv a := by
  have hxf : 0 ≤ x * f := Int.mul_nonneg hx (by omega)
  rw [Int.tdiv_eq_ediv_of_nonneg hxf]
  exact Int.ediv_nonneg hxf (by omega)

theorem amountOf_single (c : Coin) (d : Denom) : Coins.amountOf [c] d = if c.1 = d then c.2 else 0 := by
  obtain ⟨x, y⟩ := c; simp

def coinAt (c : Coin) (d : Denom) : Int := if c.1 = d then c.2 else 0

/-- closed form of the amount to hold -/
theorem amountOf_holdAmt (o : Order) (d : Denom) :
    Coins.amountOf (holdAmt o) d =
      if o.isAsk then
        coinAt o.assets d + (match o.fees.head? with
          | some fee => if fee.1 = o.price.1 then 0 else coinAt fee d
          | none => 0)
      else coinAt o.price d + Coins.amountOf o.fees d := by
  unfold holdAmt coinAt
  cases hask : o.isAsk
  · simp [amountOf_addCoin]
  · cases hh : o.fees.head? with
    | none => simp [amountOf_single]
    | some fee =>
      by_cases hd : fee.1 = o.price.1
      · simp [hd, amountOf_single]
      · simp [hd, amountOf_addCoin, amountOf_single]; omega

theorem amountOf_map_split (l : Coins) (g : Coin → Int) (d : Denom) :
    Coins.amountOf (l.map fun c => (c.1, g c)) d + Coins.amountOf (l.map fun c => (c.1, c.2 - g c)) d
      = Coins.amountOf l d := by
  induction l with
  | nil => simp
  | cons c t ih =>
    obtain ⟨x, y⟩ := c
    simp only [List.map_cons, Coins.amountOf_cons]
    split <;> omega

/-- what `Order.Split` guarantees: same id and owner, and the two parts' hold amounts add up to
the original's ("filled + remaining hold = original hold"). -/
theorem split_spec {o fl left : Order} {f : Int} (h : o.split f = some (fl, left)) :
    fl.id = o.id ∧ left.id = o.id ∧ fl.owner = o.owner ∧ left.owner = o.owner ∧
    (∀ d, Coins.amountOf (holdAmt fl) d + Coins.amountOf (holdAmt left) d = Coins.amountOf (holdAmt o) d) ∧
    (OrderWF o → OrderWF left ∧ OrderWF fl) := by
  unfold Order.split at h
  split at h
  · simp at h
  · rename_i hpos
    split at h
    · simp at h
    · split at h
      · simp at h
      · rename_i hle
        split at h
        · simp at h
        · split at h
          · simp at h
          · split at h
            · simp at h
            · simp only [Option.some.injEq, Prod.mk.injEq] at h
              obtain ⟨h1, h2⟩ := h
              subst h1; subst h2
              refine ⟨rfl, rfl, rfl, rfl, ?_, ?_⟩
              · intro d
                simp only [amountOf_holdAmt, coinAt, List.head?_map]
                cases hask : o.isAsk
                · simp only [Bool.false_eq_true, ↓reduceIte]
                  have : Coins.amountOf (o.fees.map fun c => (c.1, (c.2 * f).tdiv o.assets.2)) d
                      + Coins.amountOf (o.fees.map fun c => (c.1, c.2 - (c.2 * f).tdiv o.assets.2)) d
                      = Coins.amountOf o.fees d :=
                    amountOf_map_split o.fees (fun c => (c.2 * f).tdiv o.assets.2) d
                  split <;> omega
                · simp only [↓reduceIte]
                  cases hh : o.fees.head? with
                  | none => simp; split <;> omega
                  | some fee =>
                    simp only [Option.map_some]
                    split_ifs <;> omega
              · rintro ⟨ha, hp, hfe⟩
                have hf0 : 0 < f := by omega
                have hfa : f ≤ o.assets.2 := by omega
                have ha0 : 0 < o.assets.2 := by omega
                refine ⟨⟨by simp; omega, ?_, ?_⟩, ⟨by simp; omega, ?_, ?_⟩⟩
                · have := tdiv_mul_le hp hf0 hfa
                  simp; omega
                · intro c hc
                  simp only [List.mem_map] at hc
                  obtain ⟨c0, hc0, rfl⟩ := hc
                  have := tdiv_mul_le (hfe c0 hc0) hf0 hfa
                  simp; omega
                · exact tdiv_mul_nonneg hp hf0 ha0
                · intro c hc
                  simp only [List.mem_map] at hc
                  obtain ⟨c0, hc0, rfl⟩ := hc
                  exact tdiv_mul_nonneg (hfe c0 hc0) hf0 ha0

/-! ### the plan of a settlement -/

/-- what `closeSettlement` needs to know about a plan, relative to the order store -/
structure PlanOk (os : List Order) (p : Plan) : Prop where
  found : ∀ o ∈ p.full, getOrder os o.id = some o
  nodup : (p.full.map (·.id)).Nodup
  part : ∀ fl left, p.part = some (fl, left) →
    ∃ orig f, getOrder os left.id = some orig ∧ orig.split f = some (fl, left) ∧ left.id ∉ p.full.map (·.id)

theorem getOrders_spec {s : State} {m : Nat} {ids : List Nat} {ask : Bool} {no : Addr} {os : List Order}
    (h : getOrders s m ids ask no = .ok os) :
    os.map (·.id) = ids ∧ ∀ o ∈ os, getOrder s.orders o.id = some o := by
  induction ids generalizing os with
  | nil => simp only [getOrders] at h; injection h with h; subst h; simp
  | cons id t ih =>
    simp only [getOrders] at h
    split at h
    · simp at h
    · rename_i o hg
      split at h
      · simp at h
      · split at h
        · simp at h
        · split at h
          · simp at h
          · split at h
            · simp at h
            · rename_i os' hos'
              injection h with h; subst h
              obtain ⟨h1, h2⟩ := ih hos'
              have hid := getOrder_some_id hg
              refine ⟨by simp [hid, h1], ?_⟩
              intro x hx
              rcases List.mem_cons.mp hx with rfl | hx'
              · rw [hid]; exact hg
              · exact h2 x hx'

theorem splitSide_spec {os : List Order} {amts : List (Int × Int)} {acc p : Plan}
    (h : splitSide os amts acc = .ok p) :
    (p.part = acc.part ∧ p.full = acc.full ++ os) ∨
    (∃ pre o f fl left, os = pre ++ [o] ∧ acc.part = none ∧ o.split f = some (fl, left) ∧
        p.part = some (fl, left) ∧ p.full = acc.full ++ pre) := by
  induction os generalizing amts acc with
  | nil =>
    simp only [splitSide] at h
    injection h with h; subst h
    exact Or.inl ⟨rfl, by simp⟩
  | cons o rest ih =>
    cases amts with
    | nil => simp [splitSide] at h
    | cons fu arest =>
      obtain ⟨f, u⟩ := fu
      simp only [splitSide] at h
      split at h
      · simp at h
      · split at h
        · split at h
          · simp at h
          · rename_i hrest
            split at h
            · simp at h
            · rename_i hpart
              split at h
              · simp at h
              · rename_i fl left hsp
                injection h with h; subst h
                have hr : rest = [] := by simpa using hrest
                have hp : acc.part = none := by
                  cases hh : acc.part with
                  | none => rfl
                  | some x => simp [hh] at hpart
                exact Or.inr ⟨[], o, f, fl, left, by simp [hr], hp, hsp, rfl, by simp⟩
        · rcases ih h with ⟨h1, h2⟩ | ⟨pre, o', f', fl, left, h1, h2, h3, h4, h5⟩
          · exact Or.inl ⟨h1, by simp [h2]⟩
          · exact Or.inr ⟨o :: pre, o', f', fl, left, by simp [h1], h2, h3, h4, by simp [h5]⟩

theorem nodup_drop_middle {pre rest : List Order} {o : Order}
    (hn : ((pre ++ [o] ++ rest).map (·.id)).Nodup) :
    ((pre ++ rest).map (·.id)).Nodup ∧ o.id ∉ (pre ++ rest).map (·.id) := by
  have : (pre ++ [o] ++ rest).map (·.id) = pre.map (·.id) ++ o.id :: rest.map (·.id) := by simp
  rw [this, List.nodup_middle, List.nodup_cons] at hn
  have e : (pre ++ rest).map (·.id) = pre.map (·.id) ++ rest.map (·.id) := by simp
  rw [e]; exact ⟨hn.2, hn.1⟩

theorem splitPartial_ok {os : List Order} {asks bids : List Order} {ra rb : List (Int × Int)} {p : Plan}
    (hf : ∀ o ∈ asks ++ bids, getOrder os o.id = some o) (hn : ((asks ++ bids).map (·.id)).Nodup)
    (h : splitPartial asks bids ra rb = .ok p) : PlanOk os p := by
  unfold splitPartial at h
  split at h
  · simp at h
  · rename_i p1 hp1
    rcases splitSide_spec hp1 with ⟨h1, h2⟩ | ⟨pre, o, f, fl, left, h1, _, h3, h4, h5⟩
    · simp only [List.nil_append] at h1 h2
      rcases splitSide_spec h with ⟨g1, g2⟩ | ⟨pre', o', f', fl', left', g1, _, g3, g4, g5⟩
      · -- everything filled in full
        refine ⟨fun x hx => hf x (by rw [g2, h2] at hx; exact hx), by rw [g2, h2]; exact hn, ?_⟩
        intro fl left hpl
        rw [g1, h1] at hpl
        simp at hpl
      · -- the last bid is partial
        have hfull : p.full = asks ++ pre' := by rw [g5, h2]
        subst g1
        have hn' : ((asks ++ pre' ++ [o'] ++ ([] : List Order)).map (·.id)).Nodup := by simpa using hn
        obtain ⟨hnd, hnot⟩ := nodup_drop_middle hn'
        simp only [List.append_nil] at hnd hnot
        refine ⟨fun x hx => hf x (by rw [hfull] at hx; simp at hx ⊢; tauto), by rw [hfull]; exact hnd, ?_⟩
        intro fl left hpl
        rw [g4] at hpl
        simp only [Option.some.injEq, Prod.mk.injEq] at hpl
        obtain ⟨rfl, rfl⟩ := hpl
        have hs := split_spec g3
        refine ⟨o', f', ?_, g3, ?_⟩
        · rw [hs.2.1]; exact hf o' (by simp)
        · rw [hs.2.1, hfull]; exact hnot
    · -- the last ask is partial
      simp only [List.nil_append] at h5
      rcases splitSide_spec h with ⟨g1, g2⟩ | ⟨pre', o', f', fl', left', g1, g2, g3, g4, g5⟩
      · have hfull : p.full = pre ++ bids := by rw [g2, h5]
        subst h1
        have hn' : ((pre ++ [o] ++ bids).map (·.id)).Nodup := hn
        obtain ⟨hnd, hnot⟩ := nodup_drop_middle hn'
        refine ⟨fun x hx => hf x (by rw [hfull] at hx; simp at hx ⊢; tauto), by rw [hfull]; exact hnd, ?_⟩
        intro fl2 left2 hpl
        rw [g1, h4] at hpl
        simp only [Option.some.injEq, Prod.mk.injEq] at hpl
        obtain ⟨rfl, rfl⟩ := hpl
        have hs := split_spec h3
        refine ⟨o, f, ?_, h3, ?_⟩
        · rw [hs.2.1]; exact hf o (by simp)
        · rw [hs.2.1, hfull]; exact hnot
      · rw [h4] at g2; simp at g2

theorem planSettlement_ok {os : List Order} {asks bids : List Order} {p : Plan}
    (hf : ∀ o ∈ asks ++ bids, getOrder os o.id = some o) (hn : ((asks ++ bids).map (·.id)).Nodup)
    (h : planSettlement asks bids = .ok p) : PlanOk os p := by
  unfold planSettlement at h
  split at h
  · split at h
    · simp at h
    · split at h
      · simp at h
      · split at h
        · simp at h
        · exact splitPartial_ok hf hn h
  · simp at h

theorem getOrder_deleteAll_not_mem (os : List Order) (ids : List Nat) {id : Nat} (h : id ∉ ids) :
    getOrder (deleteAll os ids) id = getOrder os id := by
  induction ids generalizing os with
  | nil => simp [deleteAll]
  | cons x t ih =>
    simp only [List.mem_cons, not_or] at h
    simp only [deleteAll, List.foldl_cons]
    have := ih (deleteOrder os x) h.2
    simp only [deleteAll] at this
    rw [this, getOrder_deleteOrder_ne _ h.1]

/-- with distinct ids, deleting a list of ids leaves no order with any of them -/
theorem getOrder_deleteAll_mem {os : List Order} (hn : (os.map (·.id)).Nodup) {ids : List Nat} {id : Nat}
    (h : id ∈ ids) : getOrder (deleteAll os ids) id = none := by
  induction ids generalizing os with
  | nil => simp at h
  | cons x t ih =>
    simp only [deleteAll, List.foldl_cons]
    by_cases hx : id = x
    · subst hx
      apply getOrder_none_of_not_mem
      intro hm
      have hsub := (deleteAll_sublist (deleteOrder os id) t).map (·.id)
      simp only [deleteAll] at hsub
      exact getOrder_none_not_mem (getOrder_deleteOrder_self hn id) (hsub.subset hm)
    · have := ih (os := deleteOrder os x) (hn.sublist ((deleteOrder_sublist os x).map _))
        (by rcases List.mem_cons.mp h with h1 | h1
            · exact absurd h1 hx
            · exact h1)
      simpa [deleteAll] using this

/-! ### closeSettlement -/

theorem releaseAll_eq {s s' : State} {os : List Order} (h : releaseAll s os = some s') :
    ∃ h', s' = { s with hold := h' } ∧ ∀ b e, Ledger.bal h' b e = hold s b e - ordersObl os b e := by
  induction os generalizing s with
  | nil =>
    simp only [releaseAll] at h
    injection h with h; subst h
    exact ⟨s.hold, rfl, fun b e => by simp [hold]⟩
  | cons o t ih =>
    simp only [releaseAll] at h
    split at h
    · simp at h
    · rename_i s1 hs1
      obtain ⟨h1, e1, hh1, _⟩ := releaseHoldTx_eq hs1
      obtain ⟨h2, e2, hh2⟩ := ih h
      subst e1
      refine ⟨h2, by rw [e2], fun b e => ?_⟩
      rw [hh2 b e, ordersObl_cons]
      simp only [hold, contrib] at *
      rw [hh1 b e]; omega

theorem bal_movesLedger_untouched (moves : List (Addr × Coins)) (b : Addr) (e : Denom)
    (h : ∀ m ∈ moves, m.1 = b → e ∉ Coins.denoms m.2) : Ledger.bal (movesLedger moves) b e = 0 := by
  induction moves with
  | nil => simp [movesLedger]
  | cons m t ih =>
    obtain ⟨a, cs⟩ := m
    simp only [movesLedger, Ledger.bal_append, Ledger.bal_entries]
    rw [ih (fun m hm => h m (by simp [hm]))]
    by_cases hab : a = b
    · have := h (a, cs) (by simp) hab
      simp [hab, amountOf_eq_zero_of_not_mem this]
    · simp [hab]

theorem applyMoves_covered {s s' : State} {moves : List (Addr × Coins)} (hc : HoldsCovered s)
    (h : applyMoves s moves = some s') :
    s' = { s with bank := s.bank ++ movesLedger moves } ∧ HoldsCovered s' := by
  unfold applyMoves at h
  simp only at h
  split at h
  · rename_i hall
    injection h with h
    refine ⟨h.symm, ?_⟩
    subst h
    intro b e
    by_cases ht : ∃ m ∈ moves, m.1 = b ∧ e ∈ Coins.denoms m.2
    · obtain ⟨m, hm, hb, he⟩ := ht
      simp only [List.all_eq_true, decide_eq_true_eq] at hall
      simp only [Coins.denoms, List.mem_map] at he
      obtain ⟨c, hc1, hc2⟩ := he
      have := hall m hm c hc1
      rw [hb, hc2] at this
      exact this
    · have hz := bal_movesLedger_untouched moves b e (by
        intro m hm hb he
        exact ht ⟨m, hm, hb, he⟩)
      have := hc b e
      simp only [hold, bal, Ledger.bal_append, hz] at *
      omega
  · simp at h

theorem closeSettlement_inv {s s' : State} {p : Plan} {moves : List (Addr × Coins)} (hi : Inv s)
    (hp : PlanOk s.orders p) (h : closeSettlement s p moves = .ok s') :
    Inv s' ∧ (∀ b e, hold s' b e = hold s b e - ordersObl p.full b e -
      (match p.part with | some (fl, _) => contrib fl b e | none => 0)) ∧
      s'.orders = deleteAll (match p.part with | some (_, left) => setOrder s.orders left | none => s.orders)
        (p.full.map (·.id)) := by
  unfold closeSettlement at h
  split at h
  · simp at h
  · rename_i s1 hs1
    obtain ⟨h1, e1, hh1⟩ := releaseAll_eq hs1
    have hfullwf : ∀ o ∈ p.full, OrderWF o := fun o ho => hi.wf.orders o (getOrder_mem (hp.found o ho))
    cases hpart : p.part with
    | none =>
      simp only [hpart] at h
      split at h
      · simp at h
      · rename_i s3 hs3
        injection h with h
        have hcov1 : HoldsCovered s1 := by
          apply covered_of_hold_le hi.covered (by rw [e1])
          intro b e
          rw [e1]; simp only [hold] at *
          rw [hh1 b e]
          have := ordersObl_nonneg hfullwf b e
          omega
        obtain ⟨e3, hcov3⟩ := applyMoves_covered hcov1 hs3
        have hhold : ∀ b e, hold s' b e = hold s b e - ordersObl p.full b e := by
          intro b e
          rw [← h, e3, e1]
          simp only [hold] at *
          rw [hh1 b e]
        refine ⟨⟨?_, ?_, ?_⟩, fun b e => by rw [hhold]; simp, by rw [← h, e3, e1]⟩
        · intro b e
          rw [hhold, hi.holdsMatch b e, ← h, e3, e1]
          simp only [obligations]
          rw [ordersObl_deleteAll s.orders p.full hp.nodup hp.found]
          omega
        · intro b e
          have := hcov3 b e
          rw [← h]
          simpa [hold, bal] using this
        · rw [← h, e3, e1]
          exact hi.wf.of_subset (deleteAll_sublist _ _) (Nat.le_refl _) (List.Sublist.refl _) (List.Sublist.refl _)
    | some pr =>
      obtain ⟨fl, left⟩ := pr
      simp only [hpart] at h
      split at h
      · simp at h
      · rename_i s2 hs2
        split at h
        · simp at h
        · rename_i s3 hs3
          injection h with h
          obtain ⟨orig, f, hgo, hsp, hnot⟩ := hp.part fl left hpart
          obtain ⟨_, hlid, hfo, hlo, hadd, hwf⟩ := split_spec hsp
          obtain ⟨h2, e2, hh2, hnn2⟩ := releaseHoldTx_eq hs2
          have horigwf := hi.wf.orders orig (getOrder_mem hgo)
          have hcov1 : HoldsCovered s1 := by
            apply covered_of_hold_le hi.covered (by rw [e1])
            intro b e
            rw [e1]; simp only [hold] at *
            rw [hh1 b e]
            have := ordersObl_nonneg hfullwf b e
            omega
          have hcov2 : HoldsCovered s2 := by
            apply covered_of_hold_le hcov1 (by rw [e2])
            intro b e
            rw [e2]; simp only [hold] at *
            rw [hh2 b e]
            have := amountOf_nonneg hnn2 e
            split <;> omega
          obtain ⟨e3, hcov3⟩ := applyMoves_covered hcov2 hs3
          have hhold : ∀ b e, hold s' b e = hold s b e - ordersObl p.full b e - contrib fl b e := by
            intro b e
            rw [← h, e3, e2]
            simp only [hold, contrib] at *
            rw [hh2 b e, e1]
            simp only
            rw [hh1 b e]
          refine ⟨⟨?_, ?_, ?_⟩, fun b e => by rw [hhold], by rw [← h, e3, e2, e1]⟩
          · intro b e
            rw [hhold, hi.holdsMatch b e, ← h, e3, e2, e1]
            simp only [obligations]
            rw [ordersObl_deleteAll (setOrder s.orders left) p.full hp.nodup (by
              intro o ho
              rw [getOrder_setOrder_ne]
              · exact hp.found o ho
              · intro heq
                exact hnot (List.mem_map.mpr ⟨o, ho, heq⟩))]
            rw [ordersObl_setOrder, storedContrib, hgo]
            have := hadd e
            simp only [contrib, hfo, hlo]
            split <;> omega
          · intro b e
            have := hcov3 b e
            rw [← h]
            simpa [hold, bal] using this
          · rw [← h, e3, e2, e1]
            constructor
            · intro o ho
              rcases mem_setOrder (mem_deleteAll ho) with rfl | ho'
              · exact (hwf horigwf).1
              · exact hi.wf.orders o ho'
            · intro o ho
              rcases mem_setOrder (mem_deleteAll ho) with rfl | ho'
              · have := hi.wf.ids orig (getOrder_mem hgo)
                have := getOrder_some_id hgo
                simp only; omega
              · exact hi.wf.ids o ho'
            · show ((deleteAll (setOrder s.orders left) _).map (·.id)).Nodup
              apply List.Nodup.sublist ((deleteAll_sublist _ _).map _)
              rw [ids_setOrder_some hgo]
              exact hi.wf.idsNodup
            · exact hi.wf.commits
            · exact hi.wf.ckeys
            · exact hi.wf.pays
            · exact hi.wf.keys
end PvProofs.Exhold