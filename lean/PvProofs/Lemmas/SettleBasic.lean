/-
Helper lemmas for C01: exact T-division, coin lists, index sums, the partition-by-key lemma.
-/
import PvModel.SettleSpec
import Mathlib.Tactic.Linarith
import Mathlib.Tactic.Ring

namespace PvProofs.Settle
open PvModel PvModel.Settle PvModel.Coins

/-! ### arithmetic -/

theorem tdiv_exact {p t : Int} (h : p.tmod t = 0) : p.tdiv t * t = p := by
  have := Int.tmod_add_mul_tdiv p t
  rw [h] at this; linarith [Int.mul_comm t (p.tdiv t)]

theorem mul_ok {a b p : Int} (h : mul a b = .ok p) : p = a * b ∧ fits256 (a * b) = true := by
  unfold mul at h
  split at h
  · simp at h; exact ⟨h.symm, by assumption⟩
  · simp at h

theorem mul_error {a b : Int} {e : Err} (h : mul a b = .error e) : e = .overflow ∧ fits256 (a * b) = false := by
  unfold mul at h
  split at h
  · simp at h
  · rename_i hn
    simp at h; exact ⟨h.symm, by simpa using hn⟩

/-! ### coin lists -/

theorem amountOf_dropZero (c : Coins) (d : Denom) : amountOf (dropZero c) d = amountOf c d := by
  unfold dropZero
  induction c with
  | nil => rfl
  | cons h t ih =>
    obtain ⟨d', x⟩ := h
    rw [List.filter_cons]
    by_cases hx : x = 0
    · subst hx
      simp only [ne_eq, not_true_eq_false, decide_false, Bool.false_eq_true, if_false, amountOf_cons, ih]
      split <;> omega
    · simp only [ne_eq, hx, not_false_eq_true, decide_true, if_true, amountOf_cons, ih]

theorem amountOf_filter_denom (c : Coins) (p : Denom → Bool) (d : Denom) :
    amountOf (c.filter (fun x => p x.1)) d = if p d then amountOf c d else 0 := by
  induction c with
  | nil => simp
  | cons h t ih =>
    obtain ⟨d', x⟩ := h
    rw [List.filter_cons]
    by_cases hp : p d'
    · simp only [hp, if_true, amountOf_cons, ih]
      by_cases hd : d' = d
      · subst hd; simp [hp]
      · simp [hd]
    · simp only [hp, Bool.false_eq_true, if_false, amountOf_cons, ih]
      by_cases hd : d' = d
      · subst hd; simp [hp]
      · simp [hd]

theorem amountOf_allZero {c : Coins} (h : allZero c = true) (d : Denom) : amountOf c d = 0 := by
  induction c with
  | nil => rfl
  | cons x t ih =>
    obtain ⟨d', v⟩ := x
    simp only [allZero, List.all_cons, Bool.and_eq_true, decide_eq_true_eq] at h
    simp only [amountOf_cons, h.1, ite_self, Int.zero_add]
    exact ih (by simpa [allZero] using h.2)

theorem amountOf_not_mem {c : Coins} {d : Denom} (h : d ∉ denoms c) : amountOf c d = 0 := by
  induction c with
  | nil => rfl
  | cons x t ih =>
    obtain ⟨d', v⟩ := x
    simp only [denoms, List.map_cons, List.mem_cons, not_or] at h
    simp only [amountOf_cons]
    rw [if_neg (fun e => h.1 e.symm), ih (by simpa [denoms] using h.2)]; rfl

theorem coinsEq_of_forall {a b : Coins} (h : ∀ d, amountOf a d = amountOf b d) : coinsEq a b = true := by
  simp [coinsEq, List.all_eq_true, h]

theorem coinsEq_iff {a b : Coins} : coinsEq a b = true ↔ ∀ d, amountOf a d = amountOf b d := by
  constructor
  · intro h d
    simp only [coinsEq, List.all_eq_true, List.mem_append, decide_eq_true_eq] at h
    by_cases hd : d ∈ denoms a ∨ d ∈ denoms b
    · exact h d hd
    · rw [not_or] at hd
      rw [amountOf_not_mem hd.1, amountOf_not_mem hd.2]
  · exact coinsEq_of_forall

/-! ### Order.Split -/

/-- what `splitFees` returns: same denoms in the same order, each amount exactly `x·f/total`. -/
theorem splitFees_ok {f total : Int} {fees ff : Coins} (h : splitFees f total fees = .ok ff) :
    ff.map (·.1) = fees.map (·.1) ∧
    (∀ d, amountOf ff d * total = amountOf fees d * f) ∧
    (∀ d, amountOf (subFees fees ff) d = amountOf fees d - amountOf ff d) := by
  induction fees generalizing ff with
  | nil => simp [splitFees] at h; subst h; simp [subFees]
  | cons c rest ih =>
    obtain ⟨d', x⟩ := c
    simp only [splitFees] at h
    split at h
    · simp at h
    · rename_i p hp
      obtain ⟨rfl, _⟩ := mul_ok hp
      split at h
      · simp at h
      · rename_i hrem
        simp only [ne_eq, Decidable.not_not] at hrem
        split at h
        · simp at h
        · rename_i r hr
          simp only [Except.ok.injEq] at h
          subst h
          obtain ⟨h1, h2, h3⟩ := ih hr
          refine ⟨by simp [h1], ?_, ?_⟩
          · intro d
            simp only [amountOf_cons]
            have := tdiv_exact hrem
            have := h2 d
            split <;> linarith
          · intro d
            simp only [subFees, amountOf_cons, h3 d]
            split <;> omega

/-- The raw facts `Order.Split` establishes. -/
structure SplitFacts (o : Order) (f : Int) (a b : Order) : Prop where
  pos : 0 < f
  lt : f < o.assets
  allowed : o.allowPartial = true
  a_party : a.sameParty o
  b_party : b.sameParty o
  a_assets : a.assets = f
  b_assets : b.assets = o.assets - f
  price_sum : a.price + b.price = o.price
  price_prop : a.price * o.assets = o.price * f
  fee_sum : ∀ d, amountOf a.fees d + amountOf b.fees d = amountOf o.fees d
  fee_prop : ∀ d, amountOf a.fees d * o.assets = amountOf o.fees d * f

theorem split_facts {o a b : Order} {f : Int} (h : o.split f = .ok (a, b)) : SplitFacts o f a b := by
  unfold Order.split at h
  split at h; · simp at h
  rename_i h1
  split at h; · simp at h
  rename_i h2
  split at h; · simp at h
  rename_i h3
  split at h; · simp at h
  rename_i h4
  split at h; · simp at h
  rename_i pp hpp
  obtain ⟨rfl, _⟩ := mul_ok hpp
  split at h; · simp at h
  rename_i hrem
  simp only [ne_eq, Decidable.not_not] at hrem
  split at h; · simp at h
  rename_i ff hff
  obtain ⟨_, hf2, hf3⟩ := splitFees_ok hff
  simp only [Except.ok.injEq, Prod.mk.injEq] at h
  obtain ⟨rfl, rfl⟩ := h
  have hx := tdiv_exact hrem
  refine ⟨by omega, by omega, by simpa using h4, by simp [Order.sameParty], by simp [Order.sameParty], rfl, rfl, by simp, by simpa using hx, ?_, ?_⟩
  · intro d; simp only [amountOf_dropZero, hf3 d]; omega
  · intro d; simp only [amountOf_dropZero]; exact hf2 d

theorem splitFees_ok_iff (f total : Int) (fees : Coins) :
    (∃ ff, splitFees f total fees = .ok ff) ↔
      ∀ c ∈ fees, fits256 (c.2 * f) = true ∧ (c.2 * f).tmod total = 0 := by
  induction fees with
  | nil => simp [splitFees]
  | cons c rest ih =>
    obtain ⟨d, x⟩ := c
    simp only [splitFees, List.mem_cons, forall_eq_or_imp]
    constructor
    · rintro ⟨ff, h⟩
      split at h; · simp at h
      rename_i p hp
      obtain ⟨rfl, hfit⟩ := mul_ok hp
      split at h; · simp at h
      rename_i hrem
      split at h; · simp at h
      rename_i r hr
      exact ⟨⟨hfit, by simpa using hrem⟩, ih.mp ⟨r, hr⟩⟩
    · rintro ⟨⟨hfit, hrem⟩, hrest⟩
      obtain ⟨r, hr⟩ := ih.mpr hrest
      have : mul x f = .ok (x * f) := by simp [mul, hfit]
      simp only [this, hrem, ne_eq, not_true_eq_false, if_false, hr]
      exact ⟨_, rfl⟩


/-! ### index sums -/

/-- `Σ_{k=i}^{i+n-1} g k` -/
def sumRange (g : Nat → Int) : Nat → Nat → Int
  | _, 0 => 0
  | i, n + 1 => g i + sumRange g (i + 1) n

/-- `Σ f (index) (order)` over a list whose head has index `i` -/
def sumIdx (f : Nat → Order → Int) : Nat → List Order → Int
  | _, [] => 0
  | i, o :: rest => f i o + sumIdx f (i + 1) rest

theorem sumRange_add (f g : Nat → Int) (i n : Nat) :
    sumRange (fun k => f k + g k) i n = sumRange f i n + sumRange g i n := by
  induction n generalizing i with
  | zero => simp [sumRange]
  | succ n ih => simp only [sumRange, ih]; omega

theorem sumRange_congr {f g : Nat → Int} {i n : Nat} (h : ∀ k, i ≤ k → k < i + n → f k = g k) :
    sumRange f i n = sumRange g i n := by
  induction n generalizing i with
  | zero => simp [sumRange]
  | succ n ih =>
    simp only [sumRange]
    rw [h i (by omega) (by omega), ih (fun k h1 h2 => h k (by omega) (by omega))]

theorem sumRange_zero (i n : Nat) : sumRange (fun _ => 0) i n = 0 := by
  induction n generalizing i with
  | zero => rfl
  | succ n ih => simp [sumRange, ih]

theorem sumRange_indicator (v : Int) (k i n : Nat) :
    sumRange (fun j => if k = j then v else 0) i n = if i ≤ k ∧ k < i + n then v else 0 := by
  induction n generalizing i with
  | zero => simp [sumRange]
  | succ n ih =>
    simp only [sumRange, ih]
    by_cases h1 : k = i
    · subst h1; simp
    · simp only [h1, if_false, Int.zero_add]
      by_cases h2 : i + 1 ≤ k ∧ k < i + 1 + n
      · rw [if_pos h2, if_pos (by omega)]
      · rw [if_neg h2, if_neg (by omega)]

theorem sumIdx_add (f g : Nat → Order → Int) (i : Nat) (os : List Order) :
    sumIdx (fun k o => f k o + g k o) i os = sumIdx f i os + sumIdx g i os := by
  induction os generalizing i with
  | nil => simp [sumIdx]
  | cons o rest ih => simp only [sumIdx, ih]; omega

theorem sumIdx_congr {f g : Nat → Order → Int} {i : Nat} {os : List Order}
    (h : ∀ k o, i ≤ k → o ∈ os → f k o = g k o) : sumIdx f i os = sumIdx g i os := by
  induction os generalizing i with
  | nil => simp [sumIdx]
  | cons o rest ih =>
    simp only [sumIdx]
    rw [h i o (by omega) (by simp), ih (fun k o' h1 h2 => h k o' (by omega) (by simp [h2]))]

/-- the order an index sum sees at position `k` is `full[k]` -/
theorem sumIdx_getD_aux (f : Nat → Order → Int) (full : List Order) (i : Nat) (os : List Order)
    (h : full.drop i = os) :
    sumIdx f i os = sumIdx (fun k _ => f k (full.getD k default)) i os := by
  induction os generalizing i with
  | nil => simp [sumIdx]
  | cons o rest ih =>
    simp only [sumIdx]
    have hlt : i < full.length := by
      by_contra hn
      rw [List.drop_eq_nil_of_le (by omega)] at h
      simp at h
    have ho : full.getD i default = o := by
      have h0 : (full.drop i)[0]? = some o := by rw [h]; rfl
      have : full[i]? = some o := by simpa using h0
      simp [List.getD, this]
    rw [ho, ih (i + 1)]
    rw [← List.drop_drop, h]
    rfl

theorem sumIdx_getD (f : Nat → Order → Int) (os : List Order) :
    sumIdx f 0 os = sumIdx (fun k _ => f k (os.getD k default)) 0 os :=
  sumIdx_getD_aux f os 0 os (by simp)

theorem sumIdx_const (g : Nat → Int) (i : Nat) (os : List Order) :
    sumIdx (fun k _ => g k) i os = sumRange g i os.length := by
  induction os generalizing i with
  | nil => simp [sumIdx, sumRange]
  | cons o rest ih => simp [sumIdx, sumRange, ih]

/-! ### partition of a trace by a key -/

def sumTr (h : Tr → Int) (t : List Tr) : Int := (t.map h).sum

@[simp] theorem sumTr_nil (h : Tr → Int) : sumTr h [] = 0 := rfl
@[simp] theorem sumTr_cons (h : Tr → Int) (e : Tr) (t : List Tr) : sumTr h (e :: t) = h e + sumTr h t := by
  simp [sumTr]
@[simp] theorem sumTr_append (h : Tr → Int) (t u : List Tr) : sumTr h (t ++ u) = sumTr h t + sumTr h u := by
  simp [sumTr]

theorem filledA_eq (t : List Tr) (i : Nat) : filledA t i = sumTr (·.amt) (t.filter (·.ask = i)) := rfl
theorem filledB_eq (t : List Tr) (j : Nat) : filledB t j = sumTr (·.amt) (t.filter (·.bid = j)) := rfl

/-- Summing, over all keys of a range, the entries with that key gives the sum of all entries. -/
theorem sum_partition (key : Tr → Nat) (h : Tr → Int) (t : List Tr) (i n : Nat)
    (hk : ∀ e ∈ t, i ≤ key e ∧ key e < i + n) :
    sumRange (fun k => sumTr h (t.filter (fun e => key e = k))) i n = sumTr h t := by
  induction t with
  | nil => simp [sumRange_zero]
  | cons e t ih =>
    have he := hk e (by simp)
    have ih' := ih (fun e' h' => hk e' (by simp [h']))
    have : ∀ k, sumTr h ((e :: t).filter (fun e => key e = k)) =
        (if key e = k then h e else 0) + sumTr h (t.filter (fun e => key e = k)) := by
      intro k
      rw [List.filter_cons]
      by_cases hke : key e = k <;> simp [hke]
    simp only [this, sumRange_add, sumRange_indicator, ih', sumTr_cons]
    rw [if_pos he]

end PvProofs.Settle
