/-
C19 — message-fee recipient splits as they are CONFIGURED (`DetermineBips`) and PAID OUT (msg
service router -> fee gas meter -> `FeeConsumedDistributions` -> `DeductFeesDistributions`):
for every fee configuration, every basis-point spelling and every list of messages of one
transaction, each recipient is paid exactly the sum of its documented shares
(`⌊amount·bips/10000⌋` per fee, explicit basis points as given — zero included —, the documented
default otherwise), whatever the number of message types that name the same recipient.
-/
import PvProofs.C19Dist

namespace PvProofs.C19Pay
open PvModel PvModel.Fees PvProofs PvProofs.C19 PvProofs.C19Dist

/-! ### `DetermineBips` -/

/-- [all spellings] with a recipient the stored basis points are the explicit value when one is
given (every value 0..10,000, zero included) and the documented default 5,000 only when none is. -/
theorem determineBips_is_documented (rcpt : String) (bs : Option Nat) (b : Nat) (hr : rcpt ≠ "")
    (h : determineBips rcpt bs = .ok b) : b = bs.getD 5000 ∧ b ≤ 10000 := by
  unfold determineBips at h
  cases bs with
  | none => simp [hr] at h; subst h; simp
  | some n =>
    by_cases hn : n > 10000
    · simp [hr, hn] at h
    · simp [hr, hn] at h; subst h; simp; omega

/-- the exact refusing set: a recipient and more than 10,000 basis points -/
theorem determineBips_fails_iff (rcpt : String) (bs : Option Nat) :
    (∃ e, determineBips rcpt bs = .error e) ↔ (rcpt ≠ "" ∧ ∃ n, bs = some n ∧ 10000 < n) := by
  unfold determineBips
  by_cases hr : rcpt = ""
  · simp [hr]
  · cases bs with
    | none => simp [hr]
    | some n => by_cases hn : n > 10000 <;> simp [hr, hn]

/-- an explicit zero is zero (not "no basis points given") -/
example : determineBips "r1" (some 0) = .ok 0 ∧ determineBips "r1" none = .ok 5000 := by decide

/-! ### one `Increase` call and a call list give the recipient its floor shares -/

/-- the shares of recipient `r` in denom `d` over a call list -/
def callsShare (r : String) (d : Denom) (cs : List FeeDistCall) : Int :=
  (cs.map fun c => shareOf r d c.1 c.2.1 c.2.2.1 c.2.2.2).sum

theorem callsShare_append (r : String) (d : Denom) (a b : List FeeDistCall) :
    callsShare r d (a ++ b) = callsShare r d a + callsShare r d b := by
  simp [callsShare, List.sum_append]

private theorem floorDiv_eq {a r : Int} (h : IsFloorDiv a 10000 r) : r = a / 10000 := by
  unfold IsFloorDiv at h; omega

theorem increase_share (s s' : FeeDist) (den : Denom) (amt : Int) (bips : Nat) (rcpt r : String)
    (hr : r ≠ "") (h : distIncrease s den amt bips rcpt = .ok s') (d : Denom) :
    Ledger.bal s'.recips r d = Ledger.bal s.recips r d + shareOf r d den amt bips rcpt := by
  unfold distIncrease at h
  by_cases ha : amt ≤ 0
  · simp [ha] at h; subst h
    have : ¬ (0 < amt) := by omega
    simp [shareOf, this]
  · have hpos : 0 < amt := by omega
    by_cases hrc : rcpt = ""
    · simp [ha, hrc] at h; subst h
      have : ¬ ("" = r) := fun e => hr e.symm
      simp [shareOf, hrc, this]
    · by_cases hb : 10000 < bips
      · rw [splitCoinByBips_rejects hb] at h; simp [ha, hrc] at h
      · obtain ⟨r0, m, hok, hfl, _, _, _⟩ :=
          splitByBips_floor_and_adds_up (by omega : 0 ≤ amt) (by omega : bips ≤ 10000)
        rw [hok] at h; simp [ha, hrc] at h; subst h
        have hq := floorDiv_eq hfl
        by_cases h1 : rcpt = r <;> by_cases h2 : den = d <;> simp [shareOf, h1, h2, hpos, hq]

/-- [all call sequences] after an accepted call list every recipient holds what it held plus the
sum of its floor shares. -/
theorem increaseAll_share (cs : List FeeDistCall) (s s' : FeeDist) (r : String) (hr : r ≠ "")
    (h : distIncreaseAll s cs = .ok s') (d : Denom) :
    Ledger.bal s'.recips r d = Ledger.bal s.recips r d + callsShare r d cs := by
  induction cs generalizing s with
  | nil => simp [distIncreaseAll] at h; subst h; simp [callsShare]
  | cons c rest ih =>
    obtain ⟨den, amt, bips, rcpt⟩ := c
    simp only [distIncreaseAll] at h
    cases h1 : distIncrease s den amt bips rcpt with
    | error e => rw [h1] at h; cases h
    | ok s1 =>
      rw [h1] at h
      have a := increase_share s s1 den amt bips rcpt r hr h1 d
      have b := ih s1 h
      simp [callsShare] at *
      omega

/-! ### the route of one transaction: per-message distributions tallied in the fee gas meter -/

/-- the calls of all messages of the transaction, in order -/
def allCalls (rate : Nat) (stored : List StoredFee) : List PayMsg → Except AErr (List FeeDistCall)
  | [] => .ok []
  | m :: rest =>
    match msgCalls rate stored m with
    | .error e => .error e
    | .ok cs =>
      match allCalls rate stored rest with
      | .error e => .error e
      | .ok r => .ok (cs ++ r)

/-- [all message lists] The tallies of the fee gas meter lose nothing: what a recipient is paid
at the end of the transaction is the sum of its floor shares over ALL `Increase` calls of ALL
messages — also when several messages, of the same or of different types, name it. -/
theorem payRoute_pays_every_share (rate : Nat) (stored : List StoredFee) (msgs : List PayMsg) (l : Ledger)
    (h : payRoute rate stored msgs = .ok l) :
    ∃ cs, allCalls rate stored msgs = .ok cs ∧
      ∀ r, r ≠ "" → ∀ d, Ledger.bal l r d = callsShare r d cs := by
  induction msgs generalizing l with
  | nil => simp [payRoute] at h; subst h; exact ⟨[], rfl, by intros; simp [callsShare]⟩
  | cons m rest ih =>
    simp only [payRoute] at h
    cases h1 : msgCalls rate stored m with
    | error e => rw [h1] at h; cases h
    | ok cs =>
      rw [h1] at h; simp only at h
      cases h2 : distIncreaseAll {} cs with
      | error e => rw [h2] at h; cases h
      | ok dd =>
        rw [h2] at h; simp only at h
        cases h3 : payRoute rate stored rest with
        | error e => rw [h3] at h; cases h
        | ok l' =>
          rw [h3] at h; simp only at h
          injection h with h; subst h
          obtain ⟨cs', hc, hall⟩ := ih l' h3
          refine ⟨cs ++ cs', by simp [allCalls, h1, hc], ?_⟩
          intro r hr d
          have a := increaseAll_share cs {} dd r hr h2 d
          have b := hall r hr d
          rw [callsShare_append]
          simp at a ⊢
          omega

/-- the same payout as ONE distribution over all the calls would give (the per-message
distributions and the per-(type, recipient) tallies are only a regrouping) -/
theorem payRoute_eq_single_distribution (rate : Nat) (stored : List StoredFee) (msgs : List PayMsg)
    (l : Ledger) (cs : List FeeDistCall) (s : FeeDist)
    (h : payRoute rate stored msgs = .ok l) (hc : allCalls rate stored msgs = .ok cs)
    (hs : distIncreaseAll {} cs = .ok s) :
    ∀ r, r ≠ "" → ∀ d, Ledger.bal l r d = Ledger.bal s.recips r d := by
  intro r hr d
  obtain ⟨cs', hc', hall⟩ := payRoute_pays_every_share rate stored msgs l h
  rw [hc] at hc'; injection hc' with hc'; subst hc'
  have := increaseAll_share cs {} s r hr hs d
  rw [hall r hr d]; simp at this; omega

/-! ### end to end: configuration + route = the documented shares -/

/-- what an accepted proposal stores -/
def storedOf (c : PayCfg) : StoredFee :=
  { typ := c.typ, den := c.den, amt := c.amt, bips := if c.rcpt = "" then 0 else c.bips.getD 5000, rcpt := c.rcpt }

theorem payConfigure_stores (cfg : List PayCfg) (acc st : List StoredFee)
    (h : payConfigure acc cfg = .ok st) : st = acc ++ cfg.map storedOf := by
  induction cfg generalizing acc with
  | nil => simp [payConfigure] at h; subst h; simp
  | cons c rest ih =>
    simp only [payConfigure] at h
    split_ifs at h with h1 h2 h3
    cases hb : determineBips c.rcpt c.bips with
    | error e => rw [hb] at h; cases h
    | ok b =>
      rw [hb] at h; simp only at h
      have := ih _ h
      rw [this]
      have hbv : b = if c.rcpt = "" then 0 else c.bips.getD 5000 := by
        by_cases hr : c.rcpt = ""
        · simp [determineBips, hr] at hb; simp [hr, hb]
        · simp [hr]; exact (determineBips_is_documented _ _ _ hr hb).1
      simp [storedOf, hbv]

private theorem shareOf_noRecipient (r : String) (d den : Denom) (amt : Int) (b b' : Nat) (hr : r ≠ "") :
    shareOf r d den amt b "" = shareOf r d den amt b' "" := by
  have : ¬ ("" = r) := fun e => hr e.symm
  simp [shareOf, this]

theorem msgCalls_share (rate : Nat) (cfg : List PayCfg) (m : PayMsg) (cs : List FeeDistCall)
    (r : String) (d : Denom) (hr : r ≠ "") (h : msgCalls rate (cfg.map storedOf) m = .ok cs) :
    callsShare r d cs = msgWant rate cfg r d m := by
  unfold msgCalls at h
  rw [List.find?_map] at h
  have hcomp : ((fun (x : StoredFee) => decide (x.typ = m.typ)) ∘ storedOf) = (fun (c : PayCfg) => decide (c.typ = m.typ)) := by
    funext c; rfl
  rw [hcomp] at h
  unfold msgWant
  have hcfg : ∀ (o : Option PayCfg), callsShare r d (feeCall (o.map storedOf)) = cfgWant r d o := by
    intro o
    cases o with
    | none => simp [callsShare, feeCall, cfgWant]
    | some c =>
      simp [callsShare, storedOf, feeCall, cfgWant]
      by_cases hrc : c.rcpt = ""
      · simp [hrc]; exact shareOf_noRecipient r d c.den c.amt _ _ hr
      · simp [hrc]
  cases ha : m.assess with
  | none =>
    rw [ha] at h; simp only at h
    injection h with h; subst h
    rw [hcfg]; simp [assessWant]
  | some q =>
    obtain ⟨den, amt, bs, rcpt⟩ := q
    rw [ha] at h; simp only at h
    cases hc : convertToHash rate den amt with
    | error e => rw [hc] at h; simp at h
    | ok a =>
      cases hb : assessBips bs with
      | error e => rw [hc, hb] at h; simp at h
      | ok b =>
        rw [hc, hb] at h; simp only at h
        injection h with h; subst h
        rw [callsShare_append, hcfg]
        have ha' : a = assessAmt rate den amt := by
          unfold convertToHash at hc
          unfold assessAmt
          by_cases hu : den = "usd"
          · simp [hu, mul256] at hc ⊢
            split_ifs at hc with hf
            injection hc with hc; exact hc.symm
          · by_cases hn : den = "nhash"
            · simp [hu, hn] at hc ⊢; exact hc.symm
            · simp [hu, hn] at hc
        have hb' : b = bs.getD 10000 := by
          unfold assessBips at hb
          cases bs with
          | none => simp at hb; simp [hb]
          | some n =>
            by_cases hn : n > 10000
            · simp [hn] at hb
            · simp [hn] at hb; simp [hb]
        simp [callsShare, assessWant, ha', hb']

theorem allCalls_share (rate : Nat) (cfg : List PayCfg) (msgs : List PayMsg) (cs : List FeeDistCall)
    (r : String) (d : Denom) (hr : r ≠ "") (h : allCalls rate (cfg.map storedOf) msgs = .ok cs) :
    callsShare r d cs = (msgs.map (msgWant rate cfg r d)).sum := by
  induction msgs generalizing cs with
  | nil => simp [allCalls] at h; subst h; simp [callsShare]
  | cons m rest ih =>
    simp only [allCalls] at h
    cases h1 : msgCalls rate (cfg.map storedOf) m with
    | error e => rw [h1] at h; cases h
    | ok c1 =>
      rw [h1] at h; simp only at h
      cases h2 : allCalls rate (cfg.map storedOf) rest with
      | error e => rw [h2] at h; cases h
      | ok c2 =>
        rw [h2] at h; simp only at h
        injection h with h; subst h
        rw [callsShare_append, msgCalls_share rate cfg m c1 r d hr h1, ih c2 h2]
        simp

/-- [all configurations, all basis-point spellings, all message lists] Whenever the transaction
is paid out, every recipient receives exactly what the documentation says it is owed: for every
message, `⌊fee·bips/10000⌋` of the fee configured for its type (explicit basis points as given,
5,000 when none are) plus `⌊assessed·bips/10000⌋` of an assessed custom fee (10,000 when none are),
summed over all messages of the transaction. -/
theorem payTx_pays_documented_shares (rate : Nat) (cfg : List PayCfg) (msgs : List PayMsg) (l : Ledger)
    (h : payTx rate cfg msgs = .ok l) (r : String) (hr : r ≠ "") (d : Denom) :
    Ledger.bal l r d = payWant rate cfg msgs r d := by
  unfold payTx at h
  cases hc : payConfigure [] cfg with
  | error e => rw [hc] at h; cases h
  | ok st =>
    rw [hc] at h; simp only at h
    have hst := payConfigure_stores cfg [] st hc
    simp at hst; subst hst
    split_ifs at h with hv
    cases hp : payRoute rate (cfg.map storedOf) msgs with
    | error e => rw [hp] at h; cases h
    | ok l' =>
      rw [hp] at h; simp only at h
      injection h with h; subst h
      obtain ⟨cs, hcs, hall⟩ := payRoute_pays_every_share rate _ msgs l' hp
      rw [hall r hr d, allCalls_share rate cfg msgs cs r d hr hcs]; rfl

/-- non-vacuity: two message types naming the same recipient, one configured with an explicit 0 -/
example : ∃ l, payTx 25000000
    [⟨"send", "nhash", 800, some 7500, "r1"⟩, ⟨"multi", "nhash", 401, some 3333, "r1"⟩, ⟨"grant", "hotdog", 9, some 0, "r1"⟩]
    [⟨"send", none⟩, ⟨"multi", none⟩, ⟨"grant", none⟩, ⟨"assess", some ("usd", 3, none, "r1")⟩] = .ok l ∧
    Ledger.bal l "r1" "nhash" = 600 + 133 + 75000000 ∧ Ledger.bal l "r1" "hotdog" = 0 := by
  refine ⟨_, rfl, ?_, ?_⟩ <;> decide

end PvProofs.C19Pay
