/-
C19 — message-fee recipient splits as they are CONFIGURED (`DetermineBips`) and PAID OUT (msg
service router -> fee gas meter -> `FeeConsumedDistributions` -> `DeductFeesDistributions`):
for every fee configuration, every basis-point spelling and every list of messages of one
transaction, each recipient is paid exactly the sum of its documented shares
(`⌊amount·bips/10000⌋` per fee, explicit basis points as given — zero included —, the documented
default otherwise), whatever the number of message types that name the same recipient.
-/
import PvProofs.C19Dist

namespace PvProofs.C19Pay
open PvModel PvModel.Fees PvProofs PvProofs.C19 PvProofs.C19Dist

/-! ### `DetermineBips` -/

/-- [all spellings] with a recipient the stored basis points are the explicit value when one is
given (every value 0..10,000, zero included) and the documented default 5,000 only when none is. -/
theorem determineBips_is_documented (rcpt : String) (bs : Option Nat) (b : Nat) (hr : rcpt ≠ "")
    (h : determineBips rcpt bs = .ok b) : b = bs.getD 5000 ∧ b ≤ 10000 := by
  unfold determineBips at h
  cases bs with
  | none => simp [hr] at h; subst h; simp
  | some n =>
    by_cases hn : n > 10000
    · simp [hr, hn] at h
    · simp [hr, hn] at h; subst h; simp; omega

/-- the exact refusing set: a recipient and more than 10,000 basis points -/
theorem determineBips_fails_iff (rcpt : String) (bs : Option Nat) :
    (∃ e, determineBips rcpt bs = .error e) ↔ (rcpt ≠ "" ∧ ∃ n, bs = some n ∧ 10000 < n) := by
  unfold determineBips
  by_cases hr : rcpt = ""
  · simp [hr]
  · cases bs with
    | none => simp [hr]
    | some n => by_cases hn : n > 10000 <;> simp [hr, hn]

/-- an explicit zero is zero (not "no basis points given") -/
example : determineBips "r1" (some 0) = .ok 0 ∧ determineBips "r1" none = .ok 5000 := by decide

/-! ### one `Increase` call and a call list give the recipient its floor shares -/

/-- the shares of recipient `r` in denom `d` over a call list -/
def callsShare (r : String) (d : Denom) (cs : List FeeDistCall) : Int :=
  (cs.map fun c => shareOf r d c.1 c.2.1 c.2.2.1 c.2.2.2).sum

theorem callsShare_append (r : String) (d : Denom) (a b : List FeeDistCall) :
    callsShare r d (a ++ b) = callsShare r d a + callsShare r d b := by
  simp [callsShare, List.sum_append]

private theorem floorDiv_eq {a r : Int} (h : IsFloorDiv a 10000 r) : r = a / 10000 := by
  unfold IsFloorDiv at h; omega

theorem increase_share (s s' : FeeDist) (den : Denom) (amt : Int) (bips : Nat) (rcpt r : String)
    (hr : r ≠ "") (h : distIncrease s den amt bips rcpt = .ok s') (d : Denom) :
    Ledger.bal s'.recips r d = Ledger.bal s.recips r d + shareOf r d den amt bips rcpt := by
  unfold distIncrease at h
  by_cases ha : amt ≤ 0
  · simp [ha] at h; subst h
    have : ¬ (0 < amt) := by omega
    simp [shareOf, this]
  · have hpos : 0 < amt := by omega
    by_cases hrc : rcpt = ""
    · simp [ha, hrc] at h; subst h
      have : ¬ ("" = r) := fun e => hr e.symm
      simp [shareOf, hrc, this]
    · by_cases hb : 10000 < bips
      · rw [splitCoinByBips_rejects hb] at h; simp [ha, hrc] at h
      · obtain ⟨r0, m, hok, hfl, _, _, _⟩ :=
          splitByBips_floor_and_adds_up (by omega : 0 ≤ amt) (by omega : bips ≤ 10000)
        rw [hok] at h; simp [ha, hrc] at h; subst h
        have hq := floorDiv_eq hfl
        by_cases h1 : rcpt = r <;> by_cases h2 : den = d <;> simp [shareOf, h1, h2, hpos, hq]

/-- [all call sequences] after an accepted call list every recipient holds what it held plus the
sum of its floor shares. -/
theorem increaseAll_share (cs : List FeeDistCall) (s s' : FeeDist) (r : String) (hr : r ≠ "")
    (h : distIncreaseAll s cs = .ok s') (d : Denom) :
    Ledger.bal s'.recips r d = Ledger.bal s.recips r d + callsShare r d cs := by
  induction cs generalizing s with
  | nil => simp [distIncreaseAll] at h; subst h; simp [callsShare]
  | cons c rest ih =>
    obtain ⟨den, amt, bips, rcpt⟩ := c
    simp only [distIncreaseAll] at h
    cases h1 : distIncrease s den amt bips rcpt with
    | error e => rw [h1] at h; cases h
    | ok s1 =>
      rw [h1] at h
      have a := increase_share s s1 den amt bips rcpt r hr h1 d
      have b := ih s1 h
      simp [callsShare] at *
      omega

/-! ### the keyed tallies of the fee gas meter (`map[key]sdk.Coins`, values added to)

`tallyAdd` is `m[k] = m[k].Add(c...)`, `tallyGet` is `m[k]`. Coins are compared by meaning
(`Coins.amountOf`, per denom). -/

section Tally
variable {κ : Type} [DecidableEq κ]

/-- lookup law 1: after `m[k] = m[k].Add(c...)` the entry of `k` is what it was plus `c`
(an absent key reads as the empty coins). -/
theorem tallyGet_tallyAdd_same (t : Tally κ) (k : κ) (c : Coins) :
    tallyGet (tallyAdd t k c) k = (tallyGet t k).add c := by
  induction t with
  | nil => simp [tallyAdd, tallyGet, Coins.add]
  | cons hd rest ih =>
    obtain ⟨k', c'⟩ := hd
    by_cases hk : k' = k
    · simp [tallyAdd, tallyGet, hk]
    · simp [tallyAdd, tallyGet, hk, ih]

/-- lookup law 2: every other key is untouched. -/
theorem tallyGet_tallyAdd_other (t : Tally κ) (k r : κ) (c : Coins) (h : k ≠ r) :
    tallyGet (tallyAdd t k c) r = tallyGet t r := by
  induction t with
  | nil => simp [tallyAdd, tallyGet, h]
  | cons hd rest ih =>
    obtain ⟨k', c'⟩ := hd
    by_cases hk : k' = k
    · subst hk; simp [tallyAdd, tallyGet, h]
    · by_cases hr : k' = r
      · subst hr; simp [tallyAdd, tallyGet, hk]
      · simp [tallyAdd, tallyGet, hk, hr, ih]

/-- the amount of denom `d` in the entries (or calls) whose key satisfies `P` -/
def sumWhere (P : κ → Bool) (l : List (κ × Coins)) (d : Denom) : Int :=
  ((l.filter fun kc => P kc.1).map fun kc => Coins.amountOf kc.2 d).sum

theorem tallyAddAll_get (calls : List (κ × Coins)) (t : Tally κ) (r : κ) (d : Denom) :
    Coins.amountOf (tallyGet (tallyAddAll t calls) r) d =
      Coins.amountOf (tallyGet t r) d + sumWhere (fun k => decide (k = r)) calls d := by
  induction calls generalizing t with
  | nil => simp [tallyAddAll, sumWhere]
  | cons kc rest ih =>
    obtain ⟨k, c⟩ := kc
    have h := ih (tallyAdd t k c)
    simp only [tallyAddAll, List.foldl_cons] at h ⊢
    rw [h]
    by_cases hk : k = r
    · subst hk; rw [tallyGet_tallyAdd_same]; simp [sumWhere]; omega
    · rw [tallyGet_tallyAdd_other _ _ _ _ hk]; simp [sumWhere, hk]

/-- [all call lists, all keys] THE statement about the keyed map: after any sequence of
`m[k] = m[k].Add(c...)` statements on an empty map, the entry of `r` holds exactly the sum of the
coins of the calls whose key is `r` — nothing is lost and nothing is counted twice, however the
calls of different keys are interleaved. (Storing instead of adding falsifies it, see
`tallyOverwrite_observation`.) -/
theorem tally_total_eq_sum (calls : List (κ × Coins)) (r : κ) (d : Denom) :
    Coins.amountOf (tallyGet (tallyAddAll [] calls) r) d =
      ((calls.filter fun kc => kc.1 = r).map fun kc => Coins.amountOf kc.2 d).sum := by
  have := tallyAddAll_get calls [] r d
  simpa [tallyGet, sumWhere] using this

omit [DecidableEq κ] in
theorem sumWhere_perm (P : κ → Bool) {l₁ l₂ : List (κ × Coins)} (h : l₁.Perm l₂) (d : Denom) :
    sumWhere P l₁ d = sumWhere P l₂ d := by
  induction h with
  | nil => rfl
  | cons x _ ih =>
    simp only [sumWhere] at ih
    cases hp : P x.1 <;> simp [sumWhere, hp, ih]
  | swap x y l =>
    cases hp : P x.1 <;> cases hq : P y.1 <;> simp [sumWhere, hp, hq]
    omega
  | trans _ _ ih1 ih2 => rw [ih1, ih2]

/-- the order of the adds (Go iterates `usedFees` in map order) does not matter for any entry. -/
theorem tally_order_irrelevant (c₁ c₂ : List (κ × Coins)) (h : c₁.Perm c₂) (r : κ) (d : Denom) :
    Coins.amountOf (tallyGet (tallyAddAll [] c₁) r) d = Coins.amountOf (tallyGet (tallyAddAll [] c₂) r) d := by
  rw [tallyAddAll_get, tallyAddAll_get, sumWhere_perm _ h]

/-- the keys of the map -/
def tallyKeys (t : Tally κ) : List κ := t.map (·.1)

theorem mem_tallyKeys_tallyAdd (t : Tally κ) (k x : κ) (c : Coins) :
    x ∈ tallyKeys (tallyAdd t k c) ↔ x ∈ tallyKeys t ∨ x = k := by
  induction t with
  | nil => simp [tallyAdd, tallyKeys]
  | cons hd rest ih =>
    obtain ⟨k', c'⟩ := hd
    simp only [tallyKeys] at ih
    by_cases hk : k' = k
    · subst hk; simp [tallyAdd, tallyKeys]
      intro h; exact Or.inl h
    · simp [tallyAdd, tallyKeys, hk, ih, or_assoc]

/-- a map has every key once: `tallyAdd` keeps it so -/
theorem tallyAdd_keys_nodup (t : Tally κ) (k : κ) (c : Coins) (h : (tallyKeys t).Nodup) :
    (tallyKeys (tallyAdd t k c)).Nodup := by
  induction t with
  | nil => simp [tallyAdd, tallyKeys]
  | cons hd rest ih =>
    obtain ⟨k', c'⟩ := hd
    have hn : k' ∉ tallyKeys rest ∧ (tallyKeys rest).Nodup := by
      simpa [tallyKeys] using h
    by_cases hk : k' = k
    · simpa [tallyAdd, tallyKeys, hk] using h
    · have hmem := mem_tallyKeys_tallyAdd rest k k' c
      have : k' ∉ tallyKeys (tallyAdd rest k c) := by
        rw [hmem]; rintro (h1 | h1); exact hn.1 h1; exact hk h1
      have := ih hn.2
      simp only [tallyAdd, hk, if_false, tallyKeys, List.map_cons, List.nodup_cons] at *
      exact ⟨by assumption, by assumption⟩

theorem tallyAddAll_keys_nodup (calls : List (κ × Coins)) (t : Tally κ) (h : (tallyKeys t).Nodup) :
    (tallyKeys (tallyAddAll t calls)).Nodup := by
  induction calls generalizing t with
  | nil => simpa [tallyAddAll] using h
  | cons kc rest ih =>
    simp only [tallyAddAll, List.foldl_cons]
    exact ih _ (tallyAdd_keys_nodup t kc.1 kc.2 h)

/-- the total of a class of keys (e.g. "all composite keys of recipient `r`") is increased by
exactly what is added under a key of the class. -/
theorem sumWhere_tallyAdd (P : κ → Bool) (t : Tally κ) (k : κ) (c : Coins) (d : Denom) :
    sumWhere P (tallyAdd t k c) d = sumWhere P t d + if P k then Coins.amountOf c d else 0 := by
  induction t with
  | nil => cases hp : P k <;> simp [tallyAdd, sumWhere, hp]
  | cons hd rest ih =>
    obtain ⟨k', c'⟩ := hd
    simp only [sumWhere] at ih
    by_cases hk : k' = k
    · subst hk
      cases hp : P k' <;> simp [tallyAdd, sumWhere, hp, Coins.add]
      omega
    · cases hp : P k' <;> cases hq : P k <;>
        simp [tallyAdd, sumWhere, hk, hp] <;> simp [hq] at ih <;> omega

omit [DecidableEq κ] in
theorem sumWhere_map {ι : Type} (P : κ → Bool) (f : ι → κ) (l : List (ι × Coins)) (d : Denom) :
    sumWhere P (l.map fun e => (f e.1, e.2)) d = sumWhere (fun i => P (f i)) l d := by
  induction l with
  | nil => simp [sumWhere]
  | cons hd rest ih =>
    simp only [sumWhere] at ih
    cases hp : P (f hd.1) <;> simp [sumWhere, hp] <;> simpa using ih

end Tally

/-- (shape of seed C19-8) two message types name recipient `r1`, a third names `r2`; the map per
recipient holds the sum for `r1`. -/
example :
    Coins.amountOf (tallyGet (feeConsumedDistributions
      [(("send", "r1"), [("nhash", 600)]), (("send", ""), [("nhash", 200)]),
       (("multi", "r2"), [("nhash", 7)]), (("multi", "r1"), [("nhash", 133)])]) "r1") "nhash" = 733 := by
  decide

/-- NOT part of the model: the seeded defect's "store a copy" instead of "add to the entry". -/
def tallyOverwrite {κ : Type} [DecidableEq κ] : Tally κ → κ → Coins → Tally κ
  | [], k, c => [(k, c)]
  | (k', c') :: rest, k, c =>
    if k' = k then (k', c) :: rest else (k', c') :: tallyOverwrite rest k c

/-- negative witness: with `tallyOverwrite` in the place of `tallyAdd` the conclusion of
`tally_total_eq_sum` is false on that input (the later share replaces the earlier one). -/
example : let calls : List (String × Coins) :=
      [("r1", [("nhash", 600)]), ("", [("nhash", 200)]), ("r2", [("nhash", 7)]), ("r1", [("nhash", 133)])]
    Coins.amountOf (tallyGet (calls.foldl (fun t kc => tallyOverwrite t kc.1 kc.2) []) "r1") "nhash" = 133 ∧
    ((calls.filter fun kc => kc.1 = "r1").map fun kc => Coins.amountOf kc.2 "nhash").sum = 733 := by
  decide

theorem tallyOverwrite_observation :
    ¬ ∀ (calls : List (String × Coins)) (r : String) (d : Denom),
      Coins.amountOf (tallyGet (calls.foldl (fun t kc => tallyOverwrite t kc.1 kc.2) []) r) d =
        ((calls.filter fun kc => kc.1 = r).map fun kc => Coins.amountOf kc.2 d).sum := by
  intro h
  have := h [("r1", [("nhash", 600)]), ("r1", [("nhash", 133)])] "r1" "nhash"
  revert this; decide

/-! ### the route of one transaction: router -> meter -> map per recipient -> sends -/

/-- what the meter holds for recipient `r`: the total over all composite keys `(type, r)` -/
def meterRecip (g : FeeMeter) (r : String) (d : Denom) : Int :=
  sumWhere (fun k => decide (k.2 = r)) g d

theorem consumeFee_recip (g : FeeMeter) (c : Coins) (typ k r : String) (d : Denom) :
    meterRecip (consumeFee g c typ k) r d = meterRecip g r d + if k = r then Coins.amountOf c d else 0 := by
  simp [meterRecip, consumeFee, sumWhere_tallyAdd]

theorem amountOf_recipCoins (l : Ledger) (r : Addr) (d : Denom) :
    Coins.amountOf (recipCoins l r) d = Ledger.bal l r d := by
  induction l with
  | nil => simp [recipCoins]
  | cons e rest ih =>
    simp only [recipCoins] at ih
    by_cases ha : e.addr = r <;> by_cases hd : e.denom = d <;>
      simp [recipCoins, Ledger.bal, ha, hd, ih]

theorem recipKeys_nodup (l : Ledger) : (recipKeys l).Nodup := by
  induction l with
  | nil => simp [recipKeys]
  | cons e rest ih =>
    simp only [recipKeys, List.nodup_cons]
    exact ⟨by simp [List.mem_filter], List.Nodup.sublist List.filter_sublist ih⟩

theorem bal_of_not_mem_recipKeys (l : Ledger) (r : Addr) (d : Denom) (h : r ∉ recipKeys l) :
    Ledger.bal l r d = 0 := by
  induction l with
  | nil => simp
  | cons e rest ih =>
    simp only [recipKeys, List.mem_cons, List.mem_filter, not_or, not_and] at h
    have h1 : e.addr ≠ r := fun e' => h.1 e'.symm
    have h2 : r ∉ recipKeys rest := fun hm => by
      have := h.2 hm; simp at this; exact h.1 this
    simp [Ledger.bal, h1, ih h2]

/-- the router's loop over the keys of `RecipientDistributions` -/
theorem foldl_consume_recip (l : Ledger) (typ : String) (ks : List Addr) (hks : ks.Nodup) (g : FeeMeter)
    (r : String) (d : Denom) :
    meterRecip (ks.foldl (fun g k => consumeFee g (recipCoins l k) typ k) g) r d =
      meterRecip g r d + if r ∈ ks then Ledger.bal l r d else 0 := by
  induction ks generalizing g with
  | nil => simp
  | cons k rest ih =>
    have hn : k ∉ rest ∧ rest.Nodup := by simpa using hks
    simp only [List.foldl_cons]
    rw [ih hn.2, consumeFee_recip, amountOf_recipCoins]
    by_cases hk : k = r
    · subst hk; simp [hn.1]
    · have : ¬ r = k := fun e => hk e.symm
      simp [hk, this]

/-! the router's guard `!feeDist.TotalAdditionalFees.IsZero()`: a distribution with a zero total
is the empty one (every `Increase` that changes anything adds a positive coin to the total). -/

def DistInv (s : FeeDist) : Prop := (∀ e ∈ s.total, 0 < e.2) ∧ (s.total = [] → s.recips = [])

theorem distIncrease_inv (s s' : FeeDist) (den : Denom) (amt : Int) (bips : Nat) (rcpt : String)
    (h : distIncrease s den amt bips rcpt = .ok s') (hi : DistInv s) : DistInv s' := by
  unfold distIncrease at h
  by_cases ha : amt ≤ 0
  · simp [ha] at h; subst h; exact hi
  · have hpos : 0 < amt := by omega
    have htot : ∀ e ∈ s.total.add [(den, amt)], 0 < e.2 := by
      intro e he
      simp only [Coins.add, List.mem_append, List.mem_singleton] at he
      rcases he with he | he
      · exact hi.1 e he
      · subst he; exact hpos
    have hne : s.total.add [(den, amt)] ≠ [] := by simp [Coins.add]
    by_cases hrc : rcpt = ""
    · simp [ha, hrc] at h; subst h
      exact ⟨htot, fun h0 => absurd h0 hne⟩
    · cases hsp : splitCoinByBips amt bips with
      | error e => rw [hsp] at h; simp [ha, hrc] at h
      | ok rm =>
        obtain ⟨r0, m⟩ := rm
        rw [hsp] at h; simp [ha, hrc] at h; subst h
        exact ⟨htot, fun h0 => absurd h0 hne⟩

theorem distIncreaseAll_inv (cs : List FeeDistCall) (s s' : FeeDist)
    (h : distIncreaseAll s cs = .ok s') (hi : DistInv s) : DistInv s' := by
  induction cs generalizing s with
  | nil => simp [distIncreaseAll] at h; subst h; exact hi
  | cons c rest ih =>
    obtain ⟨den, amt, bips, rcpt⟩ := c
    simp only [distIncreaseAll] at h
    cases h1 : distIncrease s den amt bips rcpt with
    | error e => rw [h1] at h; cases h
    | ok s1 => rw [h1] at h; exact ih s1 h (distIncrease_inv s s1 den amt bips rcpt h1 hi)

private theorem amountOf_nonneg (t : Coins) (h : ∀ e ∈ t, 0 < e.2) (d : Denom) : 0 ≤ Coins.amountOf t d := by
  induction t with
  | nil => simp
  | cons hd rest ih =>
    obtain ⟨d', a⟩ := hd
    have h1 : 0 < a := h (d', a) (by simp)
    have h2 := ih (fun e he => h e (by simp [he]))
    simp only [Coins.amountOf_cons]
    split <;> omega

theorem isZero_of_pos (t : Coins) (h : ∀ e ∈ t, 0 < e.2) (hz : Coins.isZero t = true) : t = [] := by
  cases t with
  | nil => rfl
  | cons hd rest =>
    obtain ⟨d', a⟩ := hd
    exfalso
    have h1 : 0 < a := h (d', a) (by simp)
    have h2 := amountOf_nonneg rest (fun e he => h e (by simp [he])) d'
    simp [Coins.isZero, Coins.denoms] at hz
    omega

theorem dist_zero_total_is_empty (cs : List FeeDistCall) (dd : FeeDist)
    (h : distIncreaseAll {} cs = .ok dd) (hz : Coins.isZero dd.total = true) : dd.recips = [] := by
  have hi := distIncreaseAll_inv cs {} dd h ⟨by simp, fun _ => rfl⟩
  exact hi.2 (isZero_of_pos dd.total hi.1 hz)

/-- ONE message through the router: what the meter holds for a recipient grows by exactly the
recipient's coins in that message's distribution. -/
theorem routeConsume_recip (g : FeeMeter) (typ : String) (dd : FeeDist) (cs : List FeeDistCall)
    (h : distIncreaseAll {} cs = .ok dd) (r : String) (hr : r ≠ "") (d : Denom) :
    meterRecip (routeConsume g typ dd) r d = meterRecip g r d + Ledger.bal dd.recips r d := by
  unfold routeConsume
  by_cases hz : Coins.isZero dd.total = true
  · simp [hz, dist_zero_total_is_empty cs dd h hz]
  · simp only [hz]
    rw [if_neg (by simp), foldl_consume_recip _ _ _ (recipKeys_nodup _)]
    have hg1 : meterRecip (if dd.module.isEmpty then g else consumeFee g dd.module typ "") r d = meterRecip g r d := by
      have : ¬ ("" = r) := fun e => hr e.symm
      split
      · rfl
      · rw [consumeFee_recip]; simp [this]
    rw [hg1]
    by_cases hm : r ∈ recipKeys dd.recips
    · simp [hm]
    · simp [hm, bal_of_not_mem_recipKeys _ _ d hm]

/-- the calls of all messages of the transaction, in order -/
def allCalls (rate : Nat) (stored : List StoredFee) : List PayMsg → Except AErr (List FeeDistCall)
  | [] => .ok []
  | m :: rest =>
    match msgCalls rate stored m with
    | .error e => .error e
    | .ok cs =>
      match allCalls rate stored rest with
      | .error e => .error e
      | .ok r => .ok (cs ++ r)

/-- [all message lists] the meter after the router has seen all messages -/
theorem payMeter_recip (rate : Nat) (stored : List StoredFee) (msgs : List PayMsg) (g g' : FeeMeter)
    (h : payMeter rate stored g msgs = .ok g') :
    ∃ cs, allCalls rate stored msgs = .ok cs ∧
      ∀ r, r ≠ "" → ∀ d, meterRecip g' r d = meterRecip g r d + callsShare r d cs := by
  induction msgs generalizing g with
  | nil => simp [payMeter] at h; subst h; exact ⟨[], rfl, by intros; simp [callsShare]⟩
  | cons m rest ih =>
    simp only [payMeter] at h
    cases h1 : msgCalls rate stored m with
    | error e => rw [h1] at h; cases h
    | ok cs =>
      rw [h1] at h; simp only at h
      cases h2 : distIncreaseAll {} cs with
      | error e => rw [h2] at h; cases h
      | ok dd =>
        rw [h2] at h; simp only at h
        obtain ⟨cs', hc, hall⟩ := ih _ h
        refine ⟨cs ++ cs', by simp [allCalls, h1, hc], ?_⟩
        intro r hr d
        have a := increaseAll_share cs {} dd r hr h2 d
        have b := hall r hr d
        have c := routeConsume_recip g m.typ dd cs h2 r hr d
        rw [callsShare_append]
        simp at a
        omega

/-- `FeeConsumedDistributions`: the entry of `r` in the map per recipient is what the meter holds
for `r` over all msg types — through `tally_total_eq_sum`. -/
theorem feeConsumedDistributions_get (g : FeeMeter) (r : String) (d : Denom) :
    Coins.amountOf (tallyGet (feeConsumedDistributions g) r) d = meterRecip g r d := by
  unfold feeConsumedDistributions meterRecip
  rw [tally_total_eq_sum]
  exact sumWhere_map (fun k => decide (k = r)) (fun (k : String × String) => k.2) g d

theorem bal_deduct_of_not_mem (t : Tally String) (r : String) (d : Denom) (h : r ∉ tallyKeys t) :
    Ledger.bal (deductDistributions t) r d = 0 := by
  induction t with
  | nil => simp [deductDistributions]
  | cons hd rest ih =>
    obtain ⟨k, c⟩ := hd
    simp only [tallyKeys, List.map_cons, List.mem_cons, not_or] at h
    have h1 : ¬ (k = r) := fun e => h.1 e.symm
    have := ih (by simpa [tallyKeys] using h.2)
    simp only [deductDistributions] at this
    simp [deductDistributions, h1, this]

/-- `DeductFeesDistributions` sends every key of the map its entry, once. -/
theorem bal_deduct (t : Tally String) (hn : (tallyKeys t).Nodup) (r : String) (d : Denom) :
    Ledger.bal (deductDistributions t) r d = Coins.amountOf (tallyGet t r) d := by
  induction t with
  | nil => simp [deductDistributions, tallyGet]
  | cons hd rest ih =>
    obtain ⟨k, c⟩ := hd
    have hn' : k ∉ tallyKeys rest ∧ (tallyKeys rest).Nodup := by simpa [tallyKeys] using hn
    have ih' := ih hn'.2
    simp only [deductDistributions] at ih'
    by_cases hk : k = r
    · subst hk
      have := bal_deduct_of_not_mem rest k d hn'.1
      simp only [deductDistributions] at this
      simp [deductDistributions, tallyGet, this]
    · simp [deductDistributions, tallyGet, hk, ih']

/-- [all message lists] The keyed tallies of the fee gas meter lose nothing: what a recipient is
sent at the end of the transaction is the sum of its floor shares over ALL `Increase` calls of ALL
messages — also when several messages, of the same or of different types, name it. (Through
`sumWhere_tallyAdd` for the map keyed by (msg type, recipient), `tally_total_eq_sum` for the map per
recipient and `bal_deduct` for the sends.) -/
theorem payRoute_pays_every_share (rate : Nat) (stored : List StoredFee) (msgs : List PayMsg) (l : Ledger)
    (h : payRoute rate stored msgs = .ok l) :
    ∃ cs, allCalls rate stored msgs = .ok cs ∧
      ∀ r, r ≠ "" → ∀ d, Ledger.bal l r d = callsShare r d cs := by
  unfold payRoute at h
  cases hm : payMeter rate stored [] msgs with
  | error e => rw [hm] at h; cases h
  | ok g =>
    rw [hm] at h; simp only at h
    injection h with h; subst h
    obtain ⟨cs, hc, hall⟩ := payMeter_recip rate stored msgs [] g hm
    refine ⟨cs, hc, ?_⟩
    intro r hr d
    have hn : (tallyKeys (feeConsumedDistributions g)).Nodup :=
      tallyAddAll_keys_nodup _ [] (by simp [tallyKeys])
    rw [bal_deduct _ hn, feeConsumedDistributions_get, hall r hr d]
    simp [meterRecip, sumWhere]

/-- the same payout as ONE distribution over all the calls would give (the per-message
distributions and the per-(type, recipient) tallies are only a regrouping) -/
theorem payRoute_eq_single_distribution (rate : Nat) (stored : List StoredFee) (msgs : List PayMsg)
    (l : Ledger) (cs : List FeeDistCall) (s : FeeDist)
    (h : payRoute rate stored msgs = .ok l) (hc : allCalls rate stored msgs = .ok cs)
    (hs : distIncreaseAll {} cs = .ok s) :
    ∀ r, r ≠ "" → ∀ d, Ledger.bal l r d = Ledger.bal s.recips r d := by
  intro r hr d
  obtain ⟨cs', hc', hall⟩ := payRoute_pays_every_share rate stored msgs l h
  rw [hc] at hc'; injection hc' with hc'; subst hc'
  have := increaseAll_share cs {} s r hr hs d
  rw [hall r hr d]; simp at this; omega

/-! ### end to end: configuration + route = the documented shares -/

/-- what an accepted proposal stores -/
def storedOf (c : PayCfg) : StoredFee :=
  { typ := c.typ, den := c.den, amt := c.amt, bips := if c.rcpt = "" then 0 else c.bips.getD 5000, rcpt := c.rcpt }

theorem payConfigure_stores (cfg : List PayCfg) (acc st : List StoredFee)
    (h : payConfigure acc cfg = .ok st) : st = acc ++ cfg.map storedOf := by
  induction cfg generalizing acc with
  | nil => simp [payConfigure] at h; subst h; simp
  | cons c rest ih =>
    simp only [payConfigure] at h
    split_ifs at h with h1 h2 h3
    cases hb : determineBips c.rcpt c.bips with
    | error e => rw [hb] at h; cases h
    | ok b =>
      rw [hb] at h; simp only at h
      have := ih _ h
      rw [this]
      have hbv : b = if c.rcpt = "" then 0 else c.bips.getD 5000 := by
        by_cases hr : c.rcpt = ""
        · simp [determineBips, hr] at hb; simp [hr, hb]
        · simp [hr]; exact (determineBips_is_documented _ _ _ hr hb).1
      simp [storedOf, hbv]

private theorem shareOf_noRecipient (r : String) (d den : Denom) (amt : Int) (b b' : Nat) (hr : r ≠ "") :
    shareOf r d den amt b "" = shareOf r d den amt b' "" := by
  have : ¬ ("" = r) := fun e => hr e.symm
  simp [shareOf, this]

theorem msgCalls_share (rate : Nat) (cfg : List PayCfg) (m : PayMsg) (cs : List FeeDistCall)
    (r : String) (d : Denom) (hr : r ≠ "") (h : msgCalls rate (cfg.map storedOf) m = .ok cs) :
    callsShare r d cs = msgWant rate cfg r d m := by
  unfold msgCalls at h
  rw [List.find?_map] at h
  have hcomp : ((fun (x : StoredFee) => decide (x.typ = m.typ)) ∘ storedOf) = (fun (c : PayCfg) => decide (c.typ = m.typ)) := by
    funext c; rfl
  rw [hcomp] at h
  unfold msgWant
  have hcfg : ∀ (o : Option PayCfg), callsShare r d (feeCall (o.map storedOf)) = cfgWant r d o := by
    intro o
    cases o with
    | none => simp [callsShare, feeCall, cfgWant]
    | some c =>
      simp [callsShare, storedOf, feeCall, cfgWant]
      by_cases hrc : c.rcpt = ""
      · simp [hrc]; exact shareOf_noRecipient r d c.den c.amt _ _ hr
      · simp [hrc]
  cases ha : m.assess with
  | none =>
    rw [ha] at h; simp only at h
    injection h with h; subst h
    rw [hcfg]; simp [assessWant]
  | some q =>
    obtain ⟨den, amt, bs, rcpt⟩ := q
    rw [ha] at h; simp only at h
    cases hc : convertToHash rate den amt with
    | error e => rw [hc] at h; simp at h
    | ok a =>
      cases hb : assessBips bs with
      | error e => rw [hc, hb] at h; simp at h
      | ok b =>
        rw [hc, hb] at h; simp only at h
        injection h with h; subst h
        rw [callsShare_append, hcfg]
        have ha' : a = assessAmt rate den amt := by
          unfold convertToHash at hc
          unfold assessAmt
          by_cases hu : den = "usd"
          · simp [hu, mul256] at hc ⊢
            split_ifs at hc with hf
            injection hc with hc; exact hc.symm
          · by_cases hn : den = "nhash"
            · simp [hu, hn] at hc ⊢; exact hc.symm
            · simp [hu, hn] at hc
        have hb' : b = bs.getD 10000 := by
          unfold assessBips at hb
          cases bs with
          | none => simp at hb; simp [hb]
          | some n =>
            by_cases hn : n > 10000
            · simp [hn] at hb
            · simp [hn] at hb; simp [hb]
        simp [callsShare, assessWant, ha', hb']

theorem allCalls_share (rate : Nat) (cfg : List PayCfg) (msgs : List PayMsg) (cs : List FeeDistCall)
    (r : String) (d : Denom) (hr : r ≠ "") (h : allCalls rate (cfg.map storedOf) msgs = .ok cs) :
    callsShare r d cs = (msgs.map (msgWant rate cfg r d)).sum := by
  induction msgs generalizing cs with
  | nil => simp [allCalls] at h; subst h; simp [callsShare]
  | cons m rest ih =>
    simp only [allCalls] at h
    cases h1 : msgCalls rate (cfg.map storedOf) m with
    | error e => rw [h1] at h; cases h
    | ok c1 =>
      rw [h1] at h; simp only at h
      cases h2 : allCalls rate (cfg.map storedOf) rest with
      | error e => rw [h2] at h; cases h
      | ok c2 =>
        rw [h2] at h; simp only at h
        injection h with h; subst h
        rw [callsShare_append, msgCalls_share rate cfg m c1 r d hr h1, ih c2 h2]
        simp

/-- [all configurations, all basis-point spellings, all message lists] Whenever the transaction
is paid out, every recipient receives exactly what the documentation says it is owed: for every
message, `⌊fee·bips/10000⌋` of the fee configured for its type (explicit basis points as given,
5,000 when none are) plus `⌊assessed·bips/10000⌋` of an assessed custom fee (10,000 when none are),
summed over all messages of the transaction. -/
theorem payTx_pays_documented_shares (rate : Nat) (cfg : List PayCfg) (msgs : List PayMsg) (l : Ledger)
    (h : payTx rate cfg msgs = .ok l) (r : String) (hr : r ≠ "") (d : Denom) :
    Ledger.bal l r d = payWant rate cfg msgs r d := by
  unfold payTx at h
  cases hc : payConfigure [] cfg with
  | error e => rw [hc] at h; cases h
  | ok st =>
    rw [hc] at h; simp only at h
    have hst := payConfigure_stores cfg [] st hc
    simp at hst; subst hst
    split_ifs at h with hv
    cases hp : payRoute rate (cfg.map storedOf) msgs with
    | error e => rw [hp] at h; cases h
    | ok l' =>
      rw [hp] at h; simp only at h
      injection h with h; subst h
      obtain ⟨cs, hcs, hall⟩ := payRoute_pays_every_share rate _ msgs l' hp
      rw [hall r hr d, allCalls_share rate cfg msgs cs r d hr hcs]; rfl

/-- non-vacuity: two message types naming the same recipient, one configured with an explicit 0 -/
example : ∃ l, payTx 25000000
    [⟨"send", "nhash", 800, some 7500, "r1"⟩, ⟨"multi", "nhash", 401, some 3333, "r1"⟩, ⟨"grant", "hotdog", 9, some 0, "r1"⟩]
    [⟨"send", none⟩, ⟨"multi", none⟩, ⟨"grant", none⟩, ⟨"assess", some ("usd", 3, none, "r1")⟩] = .ok l ∧
    Ledger.bal l "r1" "nhash" = 600 + 133 + 75000000 ∧ Ledger.bal l "r1" "hotdog" = 0 := by
  refine ⟨_, rfl, ?_, ?_⟩ <;> decide

end PvProofs.C19Pay
