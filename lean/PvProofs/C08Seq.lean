/-
C08 — sequences of transactions (histories).

`PvProofs.C08` is about ONE `runTx` on an arbitrary state.  Here: `runTxs`, the chain state after
any sequence of executed transactions — several from one payer, from different payers, with or
without fee grants, under configurations that may differ from block to block — each running on
the state its predecessors left (`Chain` holds every account's sequence and every allowance; a
transaction sees its `view` of it).  The per-transaction clauses of the property hold for EVERY
element of EVERY sequence, on the state the prefix produced, and they add up.

`runTxs` composes the single-transaction model `deliverTx` the way `FinalizeBlock` composes `runTx`,
`checkTxs` composes `checkTx` the way the mempool's check state does.  Both compositions are
replayed on the implementation by the `seq` / `mempool` ops of the `txfee` stream
(harness/txfee_seq_test.go, PvModel/TxfeeSeqDriver.lean): 2–4 signed transactions in one block, in
consecutive blocks, or arriving one after the other at the mempool, compared with `runTxs` /
`checkTxs` after every block / arrival.
-/
import PvProofs.C08

namespace PvProofs.C08Seq
open PvModel PvModel.Txfee PvModel.Fees PvProofs.TxfeeL PvProofs.C08

/-! ### helpers -/

theorem runTxs_append (c : Chain) (xs ys : List (Cfg × Tx)) :
    runTxs c (xs ++ ys) = runTxs (runTxs c xs) ys := by
  induction xs generalizing c with
  | nil => rfl
  | cons x xs ih => obtain ⟨cfg, tx⟩ := x; simp only [List.cons_append, runTxs]; exact ih _

theorem runTxs_snoc (c : Chain) (pre : List (Cfg × Tx)) (cfg : Cfg) (tx : Tx) :
    runTxs c (pre ++ [(cfg, tx)]) = (deliverIn cfg (runTxs c pre) tx).1 := by
  rw [runTxs_append]; rfl

theorem put_view (c : Chain) (tx : Tx) : c.put tx (c.view tx) = c := by
  cases c with
  | mk l al sq =>
    simp only [Chain.put, Chain.view]
    congr 1
    · funext g p
      by_cases h : tx.granter = some g ∧ p = tx.payer
      · obtain ⟨h1, h2⟩ := h; simp [h1, h2]
      · simp [h]
    · funext a
      by_cases h : a = tx.payer
      · simp [h]
      · simp [h]

theorem invoke_seq_supply {cfg : Cfg} {tx : Tx} {m : Meter} {s s' : St} (h : invoke cfg tx m s = .ok s') :
    s'.seq = s.seq ∧ ∀ d, s'.ledger.supply d = s.ledger.supply d := by
  unfold invoke at h
  dsimp only at h
  split at h
  · cases h
  · split_ifs at h
    · split at h
      · cases h
      · rename_i l hd
        cases h
        exact ⟨rfl, (deduct_spec hd).2.2⟩
    · cases h; exact ⟨rfl, fun _ => rfl⟩

theorem runSteps_supply {cfg : Cfg} {tx : Tx} : ∀ (steps : List Step) {l l2 : Ledger} {m m2 : Meter},
    EffectsConserve steps → runSteps cfg tx steps (l, m) = .ok (l2, m2) → ∀ d, l2.supply d = l.supply d := by
  intro steps
  induction steps with
  | nil => intro l l2 m m2 _ h; simp only [runSteps] at h; cases h; intro d; rfl
  | cons st rest ih =>
    intro l l2 m m2 hc h d
    cases st with
    | route msg =>
      simp only [runSteps] at h
      split at h
      · cases h
      · exact ih (by simpa [EffectsConserve] using hc) h d
    | effect f =>
      simp only [runSteps] at h
      simp only [EffectsConserve] at hc
      split at h
      · cases h
      · rename_i l' hl
        rw [ih hc.2 h d, hc.1 l l' hl d]
    | consume typ fee =>
      simp only [runSteps] at h
      exact ih (by simpa [EffectsConserve] using hc) h d

/-- One transaction: the payer's sequence goes up by exactly one unless the ante handler
rejected it — whether it then failed or succeeded. -/
theorem deliverTx_seq (cfg : Cfg) (tx : Tx) (s : St) :
    (deliverTx cfg tx s).final.seq =
      s.seq + (if (deliverTx cfg tx s).outcome.isRejected = false then 1 else 0) := by
  cases ho : (deliverTx cfg tx s).outcome with
  | rejected e => simp [Outcome.isRejected, (rejected_tx_changes_nothing cfg tx s e ho).2]
  | failed e => simp [Outcome.isRejected, (failed_tx_charges_base_fee_only cfg tx s e ho).2.2.1]
  | ok =>
    obtain ⟨m, m2, hA, _, hI⟩ := success_stages cfg tx s ho
    have h1 := (invoke_seq_supply hI).1
    have h2 := (ante_spec hA).2.2.1
    simp only [Outcome.isRejected, if_true]
    rw [h1]; exact h2

/-- One transaction whose handlers neither mint nor burn: total supply is unchanged, whatever
the outcome. -/
theorem deliverTx_supply (cfg : Cfg) (tx : Tx) (s : St) (hc : EffectsConserve tx.steps) (d : Denom) :
    (deliverTx cfg tx s).final.ledger.supply d = s.ledger.supply d := by
  unfold deliverTx
  cases hA : anteHandle cfg tx false s with
  | error e => rfl
  | ok p =>
    obtain ⟨s1, m⟩ := p
    obtain ⟨_, _, _, _, h5, _⟩ := ante_spec hA
    simp only []
    by_cases ho : tx.oogMsgs = true
    · simp [ho, h5]
    · simp only [ho, Bool.false_eq_true, if_false]
      cases hR : runSteps cfg tx tx.steps (s1.ledger, m) with
      | error e => exact h5 d
      | ok q =>
        obtain ⟨l2, m2⟩ := q
        simp only []
        cases hI : invoke cfg tx m2 { s1 with ledger := l2 } with
        | error e => exact h5 d
        | ok s3 =>
          simp only []
          rw [(invoke_seq_supply hI).2 d]
          simp only []
          rw [runSteps_supply tx.steps hc hR d, h5 d]

/-! ### Where an element of a sequence runs -/

/-- Every element of every sequence runs on the state its prefix produced, and the rest of the
sequence continues from what it left. -/
theorem seq_element_runs_on_prefix_state (c0 : Chain) (pre post : List (Cfg × Tx)) (cfg : Cfg) (tx : Tx) :
    runTxs c0 (pre ++ (cfg, tx) :: post) = runTxs (runTxs c0 (pre ++ [(cfg, tx)])) post ∧
    runTxs c0 (pre ++ [(cfg, tx)]) =
      (runTxs c0 pre).put tx (deliverTx cfg tx ((runTxs c0 pre).view tx)).final := by
  refine ⟨?_, runTxs_snoc c0 pre cfg tx⟩
  rw [← runTxs_append, List.append_assoc]; rfl

/-! ### The per-transaction clauses, for every element of every sequence -/

/-- **failed ⇒ exactly the base fee and the sequence bump — nothing else on the whole chain.**
For every sequence `pre` (any number of earlier transactions of the same payer or of others,
under any configurations) and every next transaction: if it passes the ante handler on the state
`pre` produced and then fails, then relative to THAT state every balance is unchanged except that
the paying account lost exactly floor × gas (of the configuration of its block) to the collector;
supply is unchanged; the payer's sequence went up by one and NO other account's sequence moved;
the allowance it used was charged exactly the base fee and NO other allowance moved. -/
theorem seq_failed_tx_base_fee_and_sequence_only (c0 : Chain) (pre : List (Cfg × Tx)) (cfg : Cfg) (tx : Tx)
    (e : Err) (h : (deliverTx cfg tx ((runTxs c0 pre).view tx)).outcome = .failed e) :
    (∀ a d, (runTxs c0 (pre ++ [(cfg, tx)])).ledger.bal a d =
        (runTxs c0 pre).ledger.bal a d +
          feeDeltaOnFailure cfg.collector tx.from (baseFee cfg.floor tx.gas) a d) ∧
    (∀ d, (runTxs c0 (pre ++ [(cfg, tx)])).ledger.supply d = (runTxs c0 pre).ledger.supply d) ∧
    (runTxs c0 (pre ++ [(cfg, tx)])).seqs tx.payer = (runTxs c0 pre).seqs tx.payer + 1 ∧
    (∀ a, a ≠ tx.payer → (runTxs c0 (pre ++ [(cfg, tx)])).seqs a = (runTxs c0 pre).seqs a) ∧
    (∀ g p, ¬ (tx.granter = some g ∧ p = tx.payer) →
        (runTxs c0 (pre ++ [(cfg, tx)])).allows g p = (runTxs c0 pre).allows g p) ∧
    (∀ g, tx.granter = some g →
        useGrantedFees ((runTxs c0 pre).allows g tx.payer) (baseFee cfg.floor tx.gas) =
          .ok ((runTxs c0 (pre ++ [(cfg, tx)])).allows g tx.payer)) := by
  obtain ⟨h1, h2, h3, h4⟩ := failed_tx_charges_base_fee_only cfg tx _ e h
  rw [runTxs_snoc]
  refine ⟨h1, h2, ?_, ?_, ?_, ?_⟩
  · have h3' : (deliverTx cfg tx ((runTxs c0 pre).view tx)).final.seq = (runTxs c0 pre).seqs tx.payer + 1 := h3
    simpa [deliverIn, Chain.put] using h3'
  · intro a ha; simp [deliverIn, Chain.put, ha]
  · intro g p hn; simp [deliverIn, Chain.put, hn]
  · intro g hg
    have hv : ((runTxs c0 pre).view tx).allow = (runTxs c0 pre).allows g tx.payer := by
      simp [Chain.view, hg]
    unfold getFeePayerUsingFeeGrant at h4
    rw [hv] at h4
    simp only [deliverIn, Chain.put, hg, and_self, if_true]
    split at h4
    · rename_i hn; rw [hg] at hn; cases hn
    · rename_i g' hg'
      rw [hg] at hg'; cases hg'
      split at h4
      · cases h4
      · rename_i a' ha'; cases h4; exact ha'

/-- **rejected in the block ⇒ the chain state is untouched** (no balance, sequence or allowance). -/
theorem seq_rejected_tx_changes_nothing (c0 : Chain) (pre : List (Cfg × Tx)) (cfg : Cfg) (tx : Tx)
    (e : Err) (h : (deliverTx cfg tx ((runTxs c0 pre).view tx)).outcome = .rejected e) :
    runTxs c0 (pre ++ [(cfg, tx)]) = runTxs c0 pre := by
  rw [runTxs_snoc]
  have hf : (deliverTx cfg tx ((runTxs c0 pre).view tx)).final = (runTxs c0 pre).view tx := by
    unfold deliverTx at h ⊢
    cases hA : anteHandle cfg tx false ((runTxs c0 pre).view tx) with
    | error e' => rfl
    | ok p =>
      obtain ⟨s1, m⟩ := p
      simp only [hA] at h
      split_ifs at h
      split at h
      · simp at h
      · split at h <;> simp at h
  simp only [deliverIn, hf]
  exact put_view _ tx

/-- **success ⇒ exactly the declared fee, distributed exactly — for every element of every
sequence.**  With `R` the run of the transaction on the state `pre` produced: for every account
and denom the fee-related change (ante handler + sweep; the handlers' own changes lie between
`R.afterAnte` and `R.afterMsgs`) is the declared fee from the paying account, each recipient's
exact shares, the rest to the collector; base + everything incurred ≤ declared; the payer's
sequence went up by one and no other account's sequence moved; no allowance but the one it used
moved. -/
theorem seq_successful_tx_declared_fee_and_sequence (c0 : Chain) (pre : List (Cfg × Tx)) (cfg : Cfg) (tx : Tx)
    (hc : cfg.collector ≠ "") (hwf : StepsWf tx.steps)
    (h : (deliverTx cfg tx ((runTxs c0 pre).view tx)).outcome = .ok) :
    (∀ a d,
      ((deliverTx cfg tx ((runTxs c0 pre).view tx)).afterAnte.ledger.bal a d - (runTxs c0 pre).ledger.bal a d) +
        ((runTxs c0 (pre ++ [(cfg, tx)])).ledger.bal a d -
          (deliverTx cfg tx ((runTxs c0 pre).view tx)).afterMsgs.bal a d) =
      feeDeltaOnSuccess cfg.collector tx.from tx.fee (stepsIncurred cfg tx.steps) a d) ∧
    (∀ d, Coins.amountOf (baseFee cfg.floor tx.gas) d + totalIncurred d (stepsIncurred cfg tx.steps) ≤
      Coins.amountOf tx.fee d) ∧
    (runTxs c0 (pre ++ [(cfg, tx)])).seqs tx.payer = (runTxs c0 pre).seqs tx.payer + 1 ∧
    (∀ a, a ≠ tx.payer → (runTxs c0 (pre ++ [(cfg, tx)])).seqs a = (runTxs c0 pre).seqs a) ∧
    (∀ g p, ¬ (tx.granter = some g ∧ p = tx.payer) →
        (runTxs c0 (pre ++ [(cfg, tx)])).allows g p = (runTxs c0 pre).allows g p) := by
  rw [runTxs_snoc]
  refine ⟨fun a d => successful_tx_charges_declared_fee cfg tx _ hc hwf h a d,
    fun d => additional_fees_covered_or_fail cfg tx _ hc hwf h d, ?_, ?_, ?_⟩
  · have h3' : (deliverTx cfg tx ((runTxs c0 pre).view tx)).final.seq = (runTxs c0 pre).seqs tx.payer + 1 :=
      (fees_conserve_supply cfg tx _ hc hwf h "").2.2
    simpa [deliverIn, Chain.put] using h3'
  · intro a ha; simp [deliverIn, Chain.put, ha]
  · intro g p hn; simp [deliverIn, Chain.put, hn]

/-! ### … and they add up -/

/-- **Nothing lost over any sequence.**  If the handlers' own work neither mints nor burns, the
total supply of every denom after ANY sequence of transactions — rejected, failed and successful
ones mixed, any payers, any configurations — is what it was: every fee debited was credited to a
recipient or the collector. -/
theorem seq_conserves_supply (c0 : Chain) (items : List (Cfg × Tx))
    (h : ∀ x ∈ items, EffectsConserve x.2.steps) (d : Denom) :
    (runTxs c0 items).ledger.supply d = c0.ledger.supply d := by
  induction items generalizing c0 with
  | nil => rfl
  | cons x rest ih =>
    obtain ⟨cfg, tx⟩ := x
    simp only [runTxs]
    rw [ih _ (fun y hy => h y (by simp [hy]))]
    exact deliverTx_supply cfg tx _ (h (cfg, tx) (by simp)) d

/-- **The sequence number counts exactly the executed transactions.**  After any sequence, the
sequence of account `P` is its initial one plus the number of transactions with payer `P` that
got past the ante handler (failed OR succeeded); rejected ones and other payers' transactions do
not move it. -/
theorem seq_sequence_counts_executed_txs (P : Addr) (c0 : Chain) (items : List (Cfg × Tx)) :
    (runTxs c0 items).seqs P = c0.seqs P + executedBy P c0 items := by
  induction items generalizing c0 with
  | nil => rfl
  | cons x rest ih =>
    obtain ⟨cfg, tx⟩ := x
    simp only [runTxs, executedBy]
    rw [ih]
    have hs := deliverTx_seq cfg tx (c0.view tx)
    by_cases hp : tx.payer = P
    · subst hp
      simp only [deliverIn, Chain.put, if_true, true_and]
      rw [hs]
      simp only [Chain.view]
      omega
    · have hp' : ¬ P = tx.payer := fun e => hp e.symm
      simp only [deliverIn, Chain.put, hp', hp, if_false, false_and]
      omega

/-- **A sequence in which nothing succeeds costs exactly the base fees of the failed ones.**
Every balance after the sequence is the initial one plus, for each FAILED transaction, its base
fee (under the configuration of its block) moving from its paying account to the collector;
rejected ones contribute nothing; nothing any handler did survives. -/
theorem seq_without_success_costs_base_fees (c0 : Chain) (items : List (Cfg × Tx))
    (h : noneSucceeds c0 items = true) (a : Addr) (d : Denom) :
    (runTxs c0 items).ledger.bal a d = c0.ledger.bal a d + failureDeltas a d c0 items := by
  induction items generalizing c0 with
  | nil => simp [runTxs, failureDeltas]
  | cons x rest ih =>
    obtain ⟨cfg, tx⟩ := x
    simp only [noneSucceeds, runsOf, List.all_cons, Bool.and_eq_true] at h
    simp only [runTxs, failureDeltas]
    rw [ih _ (by simpa [noneSucceeds] using h.2)]
    have hR : (deliverIn cfg c0 tx).2 = deliverTx cfg tx (c0.view tx) := rfl
    have hL : (deliverIn cfg c0 tx).1.ledger = (deliverTx cfg tx (c0.view tx)).final.ledger := rfl
    rw [hL, hR]
    rw [hR] at h
    cases ho : (deliverTx cfg tx (c0.view tx)).outcome with
    | ok => simp [ho, Outcome.isOk] at h
    | failed e =>
      have := (failed_tx_charges_base_fee_only cfg tx _ e ho).1 a d
      rw [this]
      simp only [Outcome.isFailed, if_true, Chain.view]
      omega
    | rejected e =>
      have := (rejected_tx_changes_nothing cfg tx _ e ho).1
      rw [this]
      simp only [Outcome.isFailed, Chain.view]
      simp

/-- **Two transactions from one payer, both failing** (the second on the state the first left,
each under the configuration of its block): the paying account — when it is not a collector — is
debited exactly `floor₁ × gas₁ + floor₂ × gas₂`, and when both have the same first signer its
sequence goes up by exactly two. -/
theorem two_failed_txs_from_one_payer (c0 : Chain) (cfg1 cfg2 : Cfg) (tx1 tx2 : Tx) (e1 e2 : Err)
    (h1 : (deliverTx cfg1 tx1 (c0.view tx1)).outcome = .failed e1)
    (h2 : (deliverTx cfg2 tx2 ((runTxs c0 [(cfg1, tx1)]).view tx2)).outcome = .failed e2)
    (hF : tx2.from = tx1.from) (hc1 : tx1.from ≠ cfg1.collector) (hc2 : tx1.from ≠ cfg2.collector) :
    (∀ d, (runTxs c0 [(cfg1, tx1), (cfg2, tx2)]).ledger.bal tx1.from d =
      c0.ledger.bal tx1.from d - Coins.amountOf (baseFee cfg1.floor tx1.gas) d
        - Coins.amountOf (baseFee cfg2.floor tx2.gas) d) ∧
    (tx2.payer = tx1.payer →
      (runTxs c0 [(cfg1, tx1), (cfg2, tx2)]).seqs tx1.payer = c0.seqs tx1.payer + 2) := by
  obtain ⟨a1, _, a3, _, _, _⟩ := seq_failed_tx_base_fee_and_sequence_only c0 [] cfg1 tx1 e1 h1
  obtain ⟨b1, _, b3, _, _, _⟩ := seq_failed_tx_base_fee_and_sequence_only c0 [(cfg1, tx1)] cfg2 tx2 e2 h2
  simp only [List.nil_append, List.cons_append] at a1 a3 b1 b3
  have hr0 : runTxs c0 [] = c0 := rfl
  rw [hr0] at a1 a3
  refine ⟨fun d => ?_, fun hp => ?_⟩
  · rw [b1 tx1.from d, a1 tx1.from d, hF]
    unfold feeDeltaOnFailure
    simp [hc1, hc2]
    omega
  · rw [hp] at b3
    rw [b3, a3]

/-! ### The mempool over a sequence of arrivals

`mempool_reject_never_charged` / `recheck_reject_never_charged` say that ONE refused `CheckTx`
returns the state it was given.  Over a history of arrivals on the mempool's copy of the chain
state this becomes: what the mempool state shows is the base fees of the ADMITTED transactions
and nothing else. -/

/-- A refused arrival leaves the whole mempool state — every balance, sequence and allowance —
as it was. -/
theorem mempool_rejected_arrival_changes_nothing (cfg : Cfg) (c : Chain) (tx : Tx) (e : Err)
    (h : (checkIn cfg c tx).2 = some e) : (checkIn cfg c tx).1 = c := by
  have h' : (checkTx cfg tx (c.view tx)).2 = some e := h
  have := mempool_reject_never_charged cfg tx (c.view tx) e h'
  simp only [checkIn, this]
  exact put_view c tx

/-- **Only admitted transactions are ever charged by the mempool.**  After ANY sequence of
arrivals (admitted and refused ones mixed, any payers, the configuration of the moment each
arrived), every balance of the mempool state is the initial one plus, for each ADMITTED
transaction only, its base fee moving from its paying account to the collector; and the sequence
of `P` advanced by exactly the number of admitted transactions of `P`. -/
theorem mempool_charges_only_admitted_txs (c0 : Chain) (items : List (Cfg × Tx)) (a : Addr) (d : Denom) (P : Addr) :
    (checkTxs c0 items).ledger.bal a d = c0.ledger.bal a d + admissionDeltas a d c0 items ∧
    (checkTxs c0 items).seqs P = c0.seqs P + admittedBy P c0 items := by
  induction items generalizing c0 with
  | nil => simp [checkTxs, admissionDeltas, admittedBy]
  | cons x rest ih =>
    obtain ⟨cfg, tx⟩ := x
    simp only [checkTxs, admissionDeltas, admittedBy]
    obtain ⟨i1, i2⟩ := ih (checkIn cfg c0 tx).1
    rw [i1, i2]
    cases hC : (checkIn cfg c0 tx).2 with
    | some e =>
      rw [mempool_rejected_arrival_changes_nothing cfg c0 tx e hC]
      simp
    | none =>
      have hC' : (checkTx cfg tx (c0.view tx)).2 = none := hC
      obtain ⟨b1, b2⟩ := admitted_mempool_state_charged_base cfg tx (c0.view tx) hC'
      have hL : (checkIn cfg c0 tx).1.ledger.bal a d = c0.ledger.bal a d +
          feeDeltaOnFailure cfg.collector tx.from (baseFee cfg.floor tx.gas) a d := b1 a d
      have hS : (checkIn cfg c0 tx).1.seqs P = if P = tx.payer then c0.seqs tx.payer + 1 else c0.seqs P := by
        simp only [checkIn, Chain.put]
        split_ifs
        · exact b2
        · rfl
      rw [hL, hS]
      simp only [Option.isNone_none, if_true, and_true]
      refine ⟨by omega, ?_⟩
      by_cases hp : P = tx.payer
      · subst hp; simp; omega
      · have hp' : ¬ tx.payer = P := fun e => hp e.symm
        simp [hp, hp']

/-! ### The clauses as a function of the element's fate

`fateFeeDelta` / `fateAllow` (TxfeeSpec) are what the `seq` and `mempool` checkers of the
correspondence driver evaluate on the states the REAL `FinalizeBlock` / `CheckTx` leave after every
block / arrival (PvModel/TxfeeSeqDriver.lean: `blockClause`, `verdictArrival`).  For the model's
`runTxs` they hold for every element of every sequence. -/

theorem baseFee_eq_nil_of_isZero {floor : Coin} {gas : Nat} (h : (baseFee floor gas).isZero = true) :
    baseFee floor gas = [] := by
  by_cases h0 : floor.2 * gas = 0
  · simp [baseFee, h0]
  · exfalso
    have h1 := isZero_iff.mp h floor.1
    rw [baseFee_amount, if_pos rfl] at h1
    exact h0 h1

/-- The meter the ante handler hands on records the base fee itself (not just its amounts). -/
theorem checkDeduct_base_eq {cfg : Cfg} {tx : Tx} {s s1 : St} {m : Meter}
    (h : checkDeductBaseFee cfg tx s = .ok (s1, m)) : m.base = baseFee cfg.floor tx.gas := by
  unfold checkDeductBaseFee at h
  dsimp only at h
  split at h
  · cases h
  · split at h
    · cases h
    · split at h
      · cases h
      · split at h
        · split at h
          · cases h
          · cases h; rfl
        · rename_i hz
          cases h
          exact (baseFee_eq_nil_of_isZero (by simpa using hz)).symm

theorem ante_base_eq {cfg : Cfg} {tx : Tx} {chk : Bool} {s s1 : St} {m : Meter}
    (h : anteHandle cfg tx chk s = .ok (s1, m)) : m.base = baseFee cfg.floor tx.gas := by
  unfold anteHandle at h
  cases hcd : checkDeductBaseFee cfg tx s with
  | error e => simp only [hcd] at h; split_ifs at h
  | ok p =>
    obtain ⟨s0, m0⟩ := p
    simp only [hcd] at h
    have := checkDeduct_base_eq hcd
    split_ifs at h <;> (cases h; exact this)

theorem consumeMsgFees_base {cfg : Cfg} {tx : Tx} {m m' : Meter} {msg : RMsg}
    (h : consumeMsgFees cfg tx m msg = .ok m') : m'.base = m.base := by
  unfold consumeMsgFees at h
  split at h
  · cases h
  · split_ifs at h
    · cases h; rfl
    · cases h
      rw [(foldl_consumeFee _ _ _).2]
      simp [Meter.consumeFee]
    · cases h
      rw [(foldl_consumeFee _ _ _).2]

/-- Nothing the router or a handler does touches the record of the base fee charged. -/
theorem runSteps_base_eq {cfg : Cfg} {tx : Tx} : ∀ (steps : List Step) {l l2 : Ledger} {m m2 : Meter},
    runSteps cfg tx steps (l, m) = .ok (l2, m2) → m2.base = m.base
  | [], l, l2, m, m2, h => by simp only [runSteps] at h; cases h; rfl
  | .route msg :: rest, l, l2, m, m2, h => by
    simp only [runSteps] at h
    cases hc : consumeMsgFees cfg tx m msg with
    | error e => simp [hc] at h
    | ok m' =>
      simp only [hc] at h
      rw [runSteps_base_eq rest h, consumeMsgFees_base hc]
  | .effect f :: rest, l, l2, m, m2, h => by
    simp only [runSteps] at h
    cases hf : f l with
    | error e => simp [hf] at h
    | ok l' =>
      simp only [hf] at h
      exact runSteps_base_eq rest h
  | .consume typ fee :: rest, l, l2, m, m2, h => by
    simp only [runSteps] at h
    rw [runSteps_base_eq rest h]
    unfold consumeMsgFee
    split_ifs <;> simp [Meter.consumeFee]

/-- The sweep uses the grant for declared − what the meter says was charged. -/
theorem invoke_allow {cfg : Cfg} {tx : Tx} {m : Meter} {s s' : St} (h : invoke cfg tx m s = .ok s') :
    getFeePayerUsingFeeGrant tx s.allow (Coins.sub tx.fee m.base) = .ok (tx.from, s'.allow) := by
  unfold invoke at h
  dsimp only at h
  split at h
  · cases h
  · rename_i src allow' hg
    have hsrc := getFeePayer_src hg
    subst hsrc
    split_ifs at h
    · split at h
      · cases h
      · cases h; exact hg
    · cases h; exact hg

theorem useGranted_of_getFeePayer {tx : Tx} {g src : Addr} {a a' : Allow} {fee : Coins}
    (hg : tx.granter = some g) (h : getFeePayerUsingFeeGrant tx a fee = .ok (src, a')) :
    useGrantedFees a fee = .ok a' := by
  unfold getFeePayerUsingFeeGrant at h
  rw [hg] at h
  dsimp only at h
  split at h
  · cases h
  · rename_i a'' ha; cases h; exact ha

/-- A delivery that does not succeed has no stages: what the ante handler left IS the result. -/
theorem not_ok_stages (cfg : Cfg) (tx : Tx) (s : St) (h : (deliverTx cfg tx s).outcome ≠ .ok) :
    (deliverTx cfg tx s).afterAnte = (deliverTx cfg tx s).final ∧
    (deliverTx cfg tx s).afterMsgs = (deliverTx cfg tx s).final.ledger := by
  unfold deliverTx at h ⊢
  cases hA : anteHandle cfg tx false s with
  | error e => simp
  | ok p =>
    obtain ⟨s1, m⟩ := p
    simp only [hA] at h ⊢
    by_cases ho : tx.oogMsgs = true
    · simp [ho]
    · simp only [ho, Bool.false_eq_true, if_false] at h ⊢
      cases hR : runSteps cfg tx tx.steps (s1.ledger, m) with
      | error e' => simp
      | ok q =>
        obtain ⟨l2, m2⟩ := q
        simp only [hR] at h ⊢
        cases hI : invoke cfg tx m2 { s1 with ledger := l2 } with
        | error e' => simp
        | ok s3 => simp [hI] at h

/-- **Every element's fee-related balance change is what its fate prescribes.**  For every sequence
`pre`, every next transaction and every account and denom: the change of the balance over the
transaction, without what the handlers' own work did (which lies between `afterAnte` and
`afterMsgs` and survives only on success), is `fateFeeDelta` of the transaction's fate — nothing
when rejected, the base fee payer → collector when failed, the declared fee distributed when it
succeeded. -/
theorem seq_element_fee_delta_by_fate (c0 : Chain) (pre : List (Cfg × Tx)) (cfg : Cfg) (tx : Tx)
    (hc : cfg.collector ≠ "") (hwf : StepsWf tx.steps) (a : Addr) (d : Denom) :
    ((deliverTx cfg tx ((runTxs c0 pre).view tx)).afterAnte.ledger.bal a d - (runTxs c0 pre).ledger.bal a d) +
      ((runTxs c0 (pre ++ [(cfg, tx)])).ledger.bal a d -
        (deliverTx cfg tx ((runTxs c0 pre).view tx)).afterMsgs.bal a d) =
    fateFeeDelta cfg tx (deliverTx cfg tx ((runTxs c0 pre).view tx)).outcome.fate a d := by
  cases ho : (deliverTx cfg tx ((runTxs c0 pre).view tx)).outcome with
  | ok =>
    exact (seq_successful_tx_declared_fee_and_sequence c0 pre cfg tx hc hwf ho).1 a d
  | failed e =>
    have hne : (deliverTx cfg tx ((runTxs c0 pre).view tx)).outcome ≠ .ok := by rw [ho]; simp
    obtain ⟨s1, s2⟩ := not_ok_stages cfg tx _ hne
    have hb := (seq_failed_tx_base_fee_and_sequence_only c0 pre cfg tx e ho).1 a d
    have hl : (runTxs c0 (pre ++ [(cfg, tx)])).ledger =
        (deliverTx cfg tx ((runTxs c0 pre).view tx)).final.ledger := by rw [runTxs_snoc]; rfl
    rw [s1, s2, ← hl, hb]
    simp only [Outcome.fate, fateFeeDelta]
    omega
  | rejected e =>
    have hne : (deliverTx cfg tx ((runTxs c0 pre).view tx)).outcome ≠ .ok := by rw [ho]; simp
    obtain ⟨s1, s2⟩ := not_ok_stages cfg tx _ hne
    have hl : (runTxs c0 (pre ++ [(cfg, tx)])).ledger =
        (deliverTx cfg tx ((runTxs c0 pre).view tx)).final.ledger := by rw [runTxs_snoc]; rfl
    have hr := seq_rejected_tx_changes_nothing c0 pre cfg tx e ho
    rw [s1, s2, ← hl, hr]
    simp only [Outcome.fate, fateFeeDelta]
    omega

/-- **Every element leaves of the allowance it used what its fate prescribes, and no other
allowance moves.**  For every sequence and every next transaction with fee granter `g`: rejected
⇒ the allowance g → payer is what it was; failed ⇒ charged exactly the base fee; succeeded ⇒
charged the base fee (ante handler) and then declared − base (sweep), both uses accepted; the
allowance of every other (granter, grantee) pair is unchanged whatever happened. -/
theorem seq_element_allowance_by_fate (c0 : Chain) (pre : List (Cfg × Tx)) (cfg : Cfg) (tx : Tx) (g : Addr)
    (hg : tx.granter = some g) :
    fateAllow cfg tx (deliverTx cfg tx ((runTxs c0 pre).view tx)).outcome.fate ((runTxs c0 pre).allows g tx.payer) =
      some ((runTxs c0 (pre ++ [(cfg, tx)])).allows g tx.payer) ∧
    (∀ g' p, ¬ (tx.granter = some g' ∧ p = tx.payer) →
      (runTxs c0 (pre ++ [(cfg, tx)])).allows g' p = (runTxs c0 pre).allows g' p) := by
  refine ⟨?_, ?_⟩
  · have hv : ((runTxs c0 pre).view tx).allow = (runTxs c0 pre).allows g tx.payer := by
      simp [Chain.view, hg]
    have hn : (runTxs c0 (pre ++ [(cfg, tx)])).allows g tx.payer =
        (deliverTx cfg tx ((runTxs c0 pre).view tx)).final.allow := by
      rw [runTxs_snoc]; simp [deliverIn, Chain.put, hg]
    cases ho : (deliverTx cfg tx ((runTxs c0 pre).view tx)).outcome with
    | rejected e =>
      rw [seq_rejected_tx_changes_nothing c0 pre cfg tx e ho]
      simp [Outcome.fate, fateAllow]
    | failed e =>
      obtain ⟨_, _, _, h4⟩ := failed_tx_charges_base_fee_only cfg tx _ e ho
      rw [hv] at h4
      have hu := useGranted_of_getFeePayer hg h4
      rw [hn]
      simp only [Outcome.fate, fateAllow, hu]
    | ok =>
      obtain ⟨m, m2, hA, hR, hI⟩ := success_stages cfg tx _ ho
      obtain ⟨_, _, _, _, _, a6⟩ := ante_spec hA
      rw [hv] at a6
      have hu1 := useGranted_of_getFeePayer hg a6
      have hI' := invoke_allow hI
      rw [runSteps_base_eq tx.steps hR, ante_base_eq hA] at hI'
      have hu2 := useGranted_of_getFeePayer hg hI'
      dsimp only at hu2
      rw [hn]
      simp only [Outcome.fate, fateAllow, hu1, hu2]
  · intro g' p hnp
    rw [runTxs_snoc]; simp [deliverIn, Chain.put, hnp]

/-- The mempool counterpart: an admitted arrival leaves of the allowance it used what is left after
the base fee (the `failed` fate: only the ante handler has run), a refused one leaves it as it
was. -/
theorem mempool_arrival_allowance_by_fate (cfg : Cfg) (c : Chain) (tx : Tx) (g : Addr) (hg : tx.granter = some g) :
    fateAllow cfg tx (if (checkIn cfg c tx).2.isNone then Fate.failed else Fate.rejected) (c.allows g tx.payer) =
      some ((checkIn cfg c tx).1.allows g tx.payer) := by
  have hv : (c.view tx).allow = c.allows g tx.payer := by simp [Chain.view, hg]
  cases hC : (checkIn cfg c tx).2 with
  | some e =>
    rw [mempool_rejected_arrival_changes_nothing cfg c tx e hC]
    simp [fateAllow]
  | none =>
    have hC' : (checkTx cfg tx (c.view tx)).2 = none := hC
    unfold checkTx at hC'
    cases hA : anteHandle cfg tx true (c.view tx) with
    | error e => simp [hA] at hC'
    | ok p =>
      obtain ⟨s1, m⟩ := p
      obtain ⟨_, _, _, _, _, a6⟩ := ante_spec hA
      rw [hv] at a6
      have hu := useGranted_of_getFeePayer hg a6
      have hn : (checkIn cfg c tx).1.allows g tx.payer = s1.allow := by
        simp [checkIn, checkTx, hA, Chain.put, hg]
      rw [hn]
      simp [fateAllow, hu]

/-! ### Non-vacuity: concrete sequences that meet the hypotheses -/

section Examples

def exChain : Chain := { ledger := exSt.ledger, allows := fun _ _ => .none, seqs := fun _ => 0 }

/-- `exTx` declaring one nhash too little: admitted (the mempool check sees the top-level
messages only) but fails on the nested message's fee. -/
def exFail : Tx := { exTx with fee := [("hotdog", 10), ("nhash", 285)] }

def exFail2 : Tx := { exTx with fee := [("hotdog", 10), ("nhash", 185)] }

-- two transactions from ONE payer, both failing (the handler-level fee is not covered: the sweep
-- fails), the second in a later block under a lowered floor price: P pays 2 × 100 + 1 × 100 and
-- its sequence goes from 0 to 2
example : (deliverTx exCfg exFail (exChain.view exFail)).outcome = .failed .funds := by decide
example : (deliverTx exCfgDown exFail2 ((runTxs exChain [(exCfg, exFail)]).view exFail2)).outcome = .failed .funds := by
  decide
example : (runTxs exChain [(exCfg, exFail), (exCfgDown, exFail2)]).ledger.bal "P" "nhash" = 1000 - 200 - 100 ∧
    (runTxs exChain [(exCfg, exFail), (exCfgDown, exFail2)]).seqs "P" = 2 ∧
    (runTxs exChain [(exCfg, exFail), (exCfgDown, exFail2)]).ledger.bal "C" "nhash" = 300 := by decide
example : noneSucceeds exChain [(exCfg, exFail), (exCfgDown, exFail2)] = true := by decide
example : exFail2.from = exFail.from ∧ exFail.from ≠ exCfg.collector ∧ exFail.from ≠ exCfgDown.collector := by decide

-- a success followed by a failure of the same payer: the second runs on what the first left
-- (X's 5 nhash are spent, the inner send fails): 1000 − 287 − 200, sequence 2; a third one is
-- rejected by the ante handler (P cannot pay a base fee of 800) and changes nothing
example : (deliverTx exCfg exTx (exChain.view exTx)).outcome = .ok := by decide
example : (deliverTx exCfg exTx ((runTxs exChain [(exCfg, exTx)]).view exTx)).outcome = .failed .funds := by decide
example : (deliverTx exCfg { exTx with gas := 400 } ((runTxs exChain [(exCfg, exTx), (exCfg, exTx)]).view exTx)).outcome
    = .rejected .funds := by decide
example : (runTxs exChain [(exCfg, exTx), (exCfg, exTx), (exCfg, { exTx with gas := 400 })]).ledger.bal "P" "nhash" = 513 ∧
    (runTxs exChain [(exCfg, exTx), (exCfg, exTx), (exCfg, { exTx with gas := 400 })]).seqs "P" = 2 ∧
    executedBy "P" exChain [(exCfg, exTx), (exCfg, exTx), (exCfg, { exTx with gas := 400 })] = 2 := by decide

-- the mempool: an admitted arrival, then an under-declared one (refused, uncharged), then the
-- first payer again: the mempool state shows 2 × 200 from P, sequence 2
example : (checkIn exCfg exChain exTx).2 = none ∧
    (checkIn exCfg (checkIn exCfg exChain exTx).1 { exTx with fee := [("nhash", 1)] }).2 = some .fee := by decide
example : (checkTxs exChain [(exCfg, exTx), (exCfg, { exTx with fee := [("nhash", 1)] }), (exCfg, exFail)]).ledger.bal "P" "nhash"
      = 1000 - 400 ∧
    admittedBy "P" exChain [(exCfg, exTx), (exCfg, { exTx with fee := [("nhash", 1)] }), (exCfg, exFail)] = 2 := by decide

-- the handlers of `exTx` (one bank send) neither mint nor burn
example : EffectsConserve exTx.steps := by
  simp only [exTx, EffectsConserve, exSend, and_true]
  intro l l' h d
  split at h
  · rename_i l'' hs; cases h; exact sendCoins_supply hs d
  · cases h

-- `seq_element_fee_delta_by_fate` / `seq_element_allowance_by_fate`: a granted transaction (G → P,
-- allowance 10 hotdog + 300 nhash) that succeeds is charged the base fee 200 and then the rest of
-- the declared fee (10 hotdog + 287 nhash): 13 nhash are left; one that fails is charged the base
-- fee only: 10 hotdog + 100 nhash are left
def exTxG : Tx := { exTx with granter := some "G" }
def exFailG : Tx := { exFail with granter := some "G" }
def exChainG : Chain :=
  { ledger := exStG.ledger,
    allows := fun g p => if g = "G" ∧ p = "P" then .lim [("hotdog", 10), ("nhash", 300)] else .none,
    seqs := fun _ => 0 }
example : exTxG.granter = some "G" ∧ exCfg.collector ≠ "" ∧
    (deliverTx exCfg exTxG (exChainG.view exTxG)).outcome = .ok ∧
    (match (runTxs exChainG [(exCfg, exTxG)]).allows "G" "P" with
      | .lim l => decide (Coins.amountOf l "nhash" = 13) && decide (Coins.amountOf l "hotdog" = 0)
      | _ => false) = true := by decide
example : (deliverTx exCfg exFailG (exChainG.view exFailG)).outcome = .failed .funds ∧
    (match (runTxs exChainG [(exCfg, exFailG)]).allows "G" "P" with
      | .lim l => decide (Coins.amountOf l "nhash" = 100) && decide (Coins.amountOf l "hotdog" = 10)
      | _ => false) = true := by decide
-- … and at the mempool: admitted, the allowance charged the base fee
example : (checkIn exCfg exChainG exTxG).2 = none ∧
    (match (checkIn exCfg exChainG exTxG).1.allows "G" "P" with
      | .lim l => decide (Coins.amountOf l "nhash" = 100) && decide (Coins.amountOf l "hotdog" = 10)
      | _ => false) = true := by decide

end Examples

end PvProofs.C08Seq
