/-
C01 — the settlement checker is the theorems' conclusion.

`settlementViolation` (PvModel/SettleSpec.lean) is what the driver evaluates on the
*implementation's* `Settlement`; this module proves that it accepts every settlement the model
builds (so each of its clauses is a consequence of the theorems of `PvProofs.C01`, and a
`fail:<clause>` verdict on the implementation is a genuine departure from them).
-/
import PvProofs.C01

namespace PvProofs.Settle
open PvModel PvModel.Settle PvModel.Coins PvModel.Ledger PvProofs.C01

theorem eq_of_mem_same_key {α β : Type} (f : α → β) {l : List α} (hn : (l.map f).Nodup) {a b : α}
    (ha : a ∈ l) (hb : b ∈ l) (h : f a = f b) : a = b := by
  induction l with
  | nil => simp at ha
  | cons x t ih =>
    simp only [List.map_cons, List.nodup_cons] at hn
    simp only [List.mem_cons] at ha hb
    rcases ha with rfl | ha <;> rcases hb with rfl | hb
    · rfl
    · exact absurd (h ▸ List.mem_map_of_mem hb) hn.1
    · exact absurd (h ▸ List.mem_map_of_mem ha) hn.1
    · exact ih hn.2 ha hb

theorem find?_of_nodup {l : List Order} (hn : (l.map (·.id)).Nodup) {o : Order} (ho : o ∈ l) :
    l.find? (fun x => x.id = o.id) = some o := by
  cases h : l.find? (fun x => x.id = o.id) with
  | none =>
    rw [List.find?_eq_none] at h
    exact absurd (by simp) (h o ho)
  | some x =>
    have hx := List.mem_of_find?_eq_some h
    have hid : x.id = o.id := by simpa using List.find?_some h
    rw [eq_of_mem_same_key (·.id) hn hx ho hid]

theorem filter_length_eq_one {α β : Type} [DecidableEq β] (f : α → β) (v : β) (l : List α)
    (hn : (l.map f).Nodup) (hv : v ∈ l.map f) : (l.filter (fun x => f x = v)).length = 1 := by
  have h1 := filter_length_le_one f v l hn
  obtain ⟨a, ha, rfl⟩ := List.mem_map.mp hv
  have : a ∈ l.filter (fun x => f x = f a) := List.mem_filter.mpr ⟨ha, by simp⟩
  have := List.length_pos_of_mem this
  omega

/-- `populateFilled` only permutes (with distinct ids) -/
theorem populateFilled_perm (fos : List FilledOrder) (left : Option Order) (ff : List FilledOrder)
    (pf : Option FilledOrder) (h : (ff, pf) = populateFilled fos left) (hn : (fos.map (·.order.id)).Nodup) :
    (ff ++ pf.toList).Perm fos := by
  unfold populateFilled at h
  cases left with
  | none =>
    simp only [Prod.mk.injEq] at h
    obtain ⟨rfl, rfl⟩ := h
    simp
  | some l =>
    simp only [Prod.mk.injEq] at h
    obtain ⟨rfl, rfl⟩ := h
    rw [getLast?_toList_of_length_le_one _ (filter_length_le_one (·.order.id) l.id fos hn)]
    have e : fos.filter (fun f => decide (f.order.id = l.id)) = fos.filter (fun f => !decide (f.order.id ≠ l.id)) := by
      congr 1; funext f; simp
    rw [e]
    exact List.filter_append_perm _ fos


theorem filledOrders_mem {p : Plan} {f : FilledOrder} (h : f ∈ Plan.filledOrders p) :
    (∃ k, p.asks[k]? = some f.order ∧ f.actualPrice = filledA p.trP k ∧ p.askFees[k]? = some f.actualFees) ∨
    (∃ k, p.bids[k]? = some f.order ∧ f.actualPrice = filledB p.trP k ∧ p.bidFees[k]? = some f.actualFees) := by
  unfold Plan.filledOrders at h
  rcases List.mem_append.mp h with h | h
  · obtain ⟨k, o, h1, h2, h3, h4⟩ := zipFilled_mem h
    left; exact ⟨k, by rw [h2]; exact h1, by simpa using h3, h4⟩
  · obtain ⟨k, o, h1, h2, h3, h4⟩ := zipFilled_mem h
    right; exact ⟨k, by rw [h2]; exact h1, by simpa using h3, h4⟩

theorem sum_filter_eq_sum_ite {α : Type} (l : List α) (p : α → Bool) (g : α → Int) :
    ((l.filter p).map g).sum = (l.map fun a => if p a then g a else 0).sum := by
  induction l with
  | nil => rfl
  | cons a t ih =>
    rw [List.filter_cons]
    by_cases h : p a <;> simp [h, ih]

theorem sum_zipFilled_order (os : List Order) (applied : Nat → Int) (fees : List Coins) (i : Nat)
    (hl : fees.length = os.length) (g : Order → Int) :
    ((zipFilled os applied fees i).map fun f => g f.order).sum = (os.map g).sum := by
  have h := zipFilled_map_order os applied fees i hl
  calc ((zipFilled os applied fees i).map fun f => g f.order).sum
      = (((zipFilled os applied fees i).map (·.order)).map g).sum := by rw [List.map_map]; rfl
    _ = (os.map g).sum := by rw [h]

theorem sum_zipFilled_price (os : List Order) (applied : Nat → Int) (fees : List Coins) (i : Nat)
    (hl : fees.length = os.length) :
    ((zipFilled os applied fees i).map (·.actualPrice)).sum = sumIdx (fun k _ => applied k) i os := by
  induction os generalizing fees i with
  | nil => simp [zipFilled, sumIdx]
  | cons o rest ih =>
    cases fees with
    | nil => simp at hl
    | cons f fs =>
      simp only [List.length_cons, Nat.add_right_cancel_iff] at hl
      simp [zipFilled, sumIdx, ih fs (i + 1) hl]


section checker
variable {asks bids : List Order} {lookup : Denom → Except Err (Option Ratio)} {p : Plan} {s : Settlement}

theorem sound_ctx (hp : plan asks bids lookup = .ok p) (hs : p.settlement = .ok s)
    (hid : ((asks ++ bids).map (·.id)).Nodup) :
    ((Plan.filledOrders p).map (·.order.id)).Nodup ∧ s.filled.Perm (Plan.filledOrders p) ∧
    (s.fullyFilled, s.partialFilled) = populateFilled (Plan.filledOrders p) p.partialLeft ∧
    s.partialLeft = p.partialLeft := by
  have hn : ((Plan.filledOrders p).map (·.order.id)).Nodup := by rw [(filled_ids hp).1]; exact hid
  obtain ⟨ta, tb, _, _, _, _, _, _, hpf, hpl⟩ := settlement_unfold hs
  exact ⟨hn, populateFilled_perm _ _ _ _ hpf hn, hpf, hpl⟩

/-- clauses that hold element-wise -/
theorem cl_elementwise (hp : plan asks bids lookup = .ok p) (hs : p.settlement = .ok s)
    (hid : ((asks ++ bids).map (·.id)).Nodup) (hv : ∀ o ∈ asks ++ bids, OrderPos o)
    {ratio : Option Ratio} (hlk : lookup (p.asks.headD default).priceDenom = .ok ratio)
    (hr : ∀ r, ratio = some r → 0 < r.priceAmt ∧ 0 ≤ r.feeAmt) :
    clBidPaysExact s.filled = true ∧ clAskPaid s.filled = true ∧ clBidFees s.filled = true ∧
    clAskFees ratio s.filled = true := by
  obtain ⟨hn, hperm, _, _⟩ := sound_ctx hp hs hid
  obtain ⟨ad, pd, W⟩ := plan_wf hp
  obtain ⟨hA, hB⟩ := orders_filled_exactly hs
  obtain ⟨hbf, ratio', hlk', hff⟩ := fee_formula hp
  have hrr : ratio' = ratio := by rw [hlk] at hlk'; simpa using hlk'.symm
  subst hrr
  obtain ⟨left1, _, _, _, h3, _, _, _, _, _⟩ := plan_unfold hp
  obtain ⟨posA, _⟩ := splitOrderFulfillments_pos h3 (fun o ho => hv o (by simp [ho]))
  have key : ∀ f ∈ s.filled,
      (f.order.isAsk = true ∧ f.order.price ≤ f.actualPrice ∧ askFeesOk ratio' f = true) ∨
      (f.order.isAsk = false ∧ f.actualPrice = f.order.price ∧ coinsEq f.actualFees f.order.fees = true) := by
    intro f hf
    have hf' := hperm.mem_iff.mp hf
    rcases filledOrders_mem hf' with ⟨k, h1, h2, h3⟩ | ⟨k, h1, h2, h3⟩
    · left
      have hask := (W.uA _ (List.mem_of_getElem? h1)).2.2
      have hle := (hA k _ h1).2
      refine ⟨hask, by rw [h2]; exact hle, ?_⟩
      have := hff k _ h1
      cases ratio' with
      | none =>
        simp only at this
        rw [h3] at this
        simp only [Option.some.injEq] at this
        simp only [askFeesOk, this]
        exact coinsEq_of_forall (fun _ => rfl)
      | some r =>
        simp only at this
        obtain ⟨amt, e1, e2⟩ := this
        rw [h3] at e1
        simp only [Option.some.injEq] at e1
        obtain ⟨hrp, hrf⟩ := hr r rfl
        have hpos : 0 ≤ filledA p.trP k := by
          have := (posA _ (List.mem_of_getElem? h1)).price
          omega
        have hceil := e2 hpos hrp hrf
        simp only [askFeesOk, List.all_eq_true]
        intro d _
        rw [e1, h2]
        simp only [amountOf_append, amountOf_cons, amountOf_nil]
        by_cases hd : d = r.feeDenom
        · subst hd
          simp only [if_true]
          have : amountOf f.order.fees r.feeDenom + (amt + 0) - amountOf f.order.fees r.feeDenom = amt := by omega
          rw [this]
          exact decide_eq_true hceil
        · have : ¬ r.feeDenom = d := fun h => hd h.symm
          simp only [hd, this, if_false]
          simp
    · right
      have hbid := (W.uB _ (List.mem_of_getElem? h1)).2.2
      refine ⟨hbid, by rw [h2]; exact (hB k _ h1).2, ?_⟩
      rw [hbf] at h3
      simp only [List.getElem?_map, h1, Option.map_some, Option.some.injEq] at h3
      rw [← h3]
      exact coinsEq_of_forall (fun _ => rfl)
  refine ⟨?_, ?_, ?_, ?_⟩
  · simp only [clBidPaysExact, List.all_eq_true]
    intro f hf
    rcases key f hf with ⟨h1, _, _⟩ | ⟨h1, h2, _⟩ <;> simp [h1, *]
  · simp only [clAskPaid, List.all_eq_true]
    intro f hf
    rcases key f hf with ⟨h1, h2, _⟩ | ⟨h1, _, _⟩ <;> simp [h1, *]
  · simp only [clBidFees, List.all_eq_true]
    intro f hf
    rcases key f hf with ⟨h1, _, _⟩ | ⟨h1, _, h3⟩ <;> simp [h1, *]
  · simp only [clAskFees, List.all_eq_true]
    intro f hf
    rcases key f hf with ⟨h1, _, h3⟩ | ⟨h1, _, _⟩ <;> simp [h1, *]


theorem cl_transfers (hp : plan asks bids lookup = .ok p) (hs : p.settlement = .ok s)
    (hid : ((asks ++ bids).map (·.id)).Nodup) :
    clBalanced s = true ∧ clAccountDeltas s = true ∧ clFeeInputs s = true := by
  obtain ⟨hn, _, _, _⟩ := sound_ctx hp hs hid
  refine ⟨?_, ?_, ?_⟩
  · simp only [clBalanced, List.all_eq_true, Transfer.balanced, decide_eq_true_eq]
    intro t ht d _
    exact transfers_balanced hs t ht d
  · simp only [clAccountDeltas, List.all_eq_true, decide_eq_true_eq]
    intro x _ d _
    rw [account_deltas hp hs x d, (filled_is_reordering hs hn x d).1]
  · simp only [clFeeInputs, List.all_eq_true, decide_eq_true_eq]
    intro x _ d _
    rw [fee_inputs_exact hp hs x d, (filled_is_reordering hs hn x d).2]

theorem cl_conserved (hp : plan asks bids lookup = .ok p) (hs : p.settlement = .ok s)
    (hid : ((asks ++ bids).map (·.id)).Nodup) :
    clAssetsConserved s.filled = true ∧ clPriceConserved s.filled = true := by
  obtain ⟨hn, _, hpf, _⟩ := sound_ctx hp hs hid
  obtain ⟨ad, pd, W⟩ := plan_wf hp
  obtain ⟨c1, c2, _⟩ := conservation hp hs
  obtain ⟨_, hB⟩ := orders_filled_exactly hs
  -- sums over `s.filled` are sums over the plan's filled orders
  have hsum : ∀ g : FilledOrder → Int, (s.filled.map g).sum = ((Plan.filledOrders p).map g).sum :=
    fun g => populateFilled_sum _ _ _ _ hpf hn g
  have isAskA : ∀ f ∈ zipFilled p.asks (filledA p.trP) p.askFees 0, f.order.isAsk = true := by
    intro f hf
    obtain ⟨k, o, h1, h2, _, _⟩ := zipFilled_mem hf
    rw [h2]; exact (W.uA o (List.mem_of_getElem? h1)).2.2
  have isAskB : ∀ f ∈ zipFilled p.bids (filledB p.trP) p.bidFees 0, f.order.isAsk = false := by
    intro f hf
    obtain ⟨k, o, h1, h2, _, _⟩ := zipFilled_mem hf
    rw [h2]; exact (W.uB o (List.mem_of_getElem? h1)).2.2
  have split : ∀ (g : FilledOrder → Int),
      ((s.filled.filter (·.order.isAsk)).map g).sum = ((zipFilled p.asks (filledA p.trP) p.askFees 0).map g).sum ∧
      ((s.filled.filter (!·.order.isAsk)).map g).sum = ((zipFilled p.bids (filledB p.trP) p.bidFees 0).map g).sum := by
    intro g
    rw [sum_filter_eq_sum_ite, sum_filter_eq_sum_ite, hsum, hsum]
    simp only [Plan.filledOrders, List.map_append, List.sum_append]
    have a1 : ((zipFilled p.asks (filledA p.trP) p.askFees 0).map fun a => if a.order.isAsk = true then g a else 0)
        = (zipFilled p.asks (filledA p.trP) p.askFees 0).map g :=
      List.map_congr_left (fun f hf => by simp [isAskA f hf])
    have a2 : ((zipFilled p.bids (filledB p.trP) p.bidFees 0).map fun a => if a.order.isAsk = true then g a else 0)
        = (zipFilled p.bids (filledB p.trP) p.bidFees 0).map fun _ => 0 :=
      List.map_congr_left (fun f hf => by simp [isAskB f hf])
    have b1 : ((zipFilled p.asks (filledA p.trP) p.askFees 0).map fun a => if (!a.order.isAsk) = true then g a else 0)
        = (zipFilled p.asks (filledA p.trP) p.askFees 0).map fun _ => 0 :=
      List.map_congr_left (fun f hf => by simp [isAskA f hf])
    have b2 : ((zipFilled p.bids (filledB p.trP) p.bidFees 0).map fun a => if (!a.order.isAsk) = true then g a else 0)
        = (zipFilled p.bids (filledB p.trP) p.bidFees 0).map g :=
      List.map_congr_left (fun f hf => by simp [isAskB f hf])
    rw [a1, a2, b1, b2]
    simp
  constructor
  · simp only [clAssetsConserved, decide_eq_true_eq]
    obtain ⟨e1, e2⟩ := split (fun f => f.order.assets)
    rw [e1, e2, sum_zipFilled_order _ _ _ _ W.lenAF (·.assets), sum_zipFilled_order _ _ _ _ W.lenBF (·.assets)]
    exact c1
  · simp only [clPriceConserved, decide_eq_true_eq]
    obtain ⟨e1, e2⟩ := split (fun f => f.actualPrice)
    rw [e1, e2, sum_zipFilled_price _ _ _ _ W.lenAF, sum_zipFilled_price _ _ _ _ W.lenBF, c2]
    have : sumIdx (fun k _ => filledB p.trP k) 0 p.bids = sumIdx (fun _ o => o.price) 0 p.bids :=
      sumIdx_congr_idx (fun k o hk => by simpa using (hB k o hk).2)
    rw [this, sumIdx_map]


theorem partial_facts (hp : plan asks bids lookup = .ok p) :
    (p.partialLeft = none ∧ p.asks ++ p.bids = asks ++ bids) ∨
    (∃ l o f amt, p.partialLeft = some l ∧ o ∈ asks ++ bids ∧ (asks.getLast? = some o ∨ bids.getLast? = some o) ∧
      f ∈ p.asks ++ p.bids ∧ f.id = o.id ∧ l.id = o.id ∧ o.split amt = .ok (f, l) ∧
      ∀ x ∈ p.asks ++ p.bids, x.id ≠ l.id → x ∈ asks ++ bids) := by
  rcases at_most_one_partial hp with ⟨a, b, c⟩ | ⟨init, o, f, u, a1, a2, a3, a4, _, a6⟩ | ⟨init, o, f, u, a1, a2, a3, a4, _, a6⟩
  · left; exact ⟨c, by rw [a, b]⟩
  · right
    obtain ⟨_, _, _, ⟨hf, _⟩, ⟨hu, _⟩, _⟩ := split_exact a6
    refine ⟨u, o, f, _, a4, by simp [a1], Or.inl (by simp [a1]), by simp [a2], hf, hu, a6, ?_⟩
    intro x hx hne
    rw [a2, a3] at hx
    simp only [List.mem_append, List.mem_singleton] at hx
    rcases hx with (h | rfl) | h
    · simp [a1, h]
    · exact absurd (hf.trans hu.symm) hne
    · simp [h]
  · right
    obtain ⟨_, _, _, ⟨hf, _⟩, ⟨hu, _⟩, _⟩ := split_exact a6
    refine ⟨u, o, f, _, a4, by simp [a1], Or.inr (by simp [a1]), by simp [a2], hf, hu, a6, ?_⟩
    intro x hx hne
    rw [a2, a3] at hx
    simp only [List.mem_append, List.mem_singleton] at hx
    rcases hx with h | h | rfl
    · simp [h]
    · simp [a1, h]
    · exact absurd (hf.trans hu.symm) hne

theorem filledOrders_orders (hp : plan asks bids lookup = .ok p) :
    (Plan.filledOrders p).map (·.order) = p.asks ++ p.bids := by
  obtain ⟨ad, pd, W⟩ := plan_wf hp
  simp only [Plan.filledOrders, List.map_append, zipFilled_map_order _ _ _ _ W.lenAF,
    zipFilled_map_order _ _ _ _ W.lenBF]

theorem cl_ids_partial (hp : plan asks bids lookup = .ok p) (hs : p.settlement = .ok s)
    (hid : ((asks ++ bids).map (·.id)).Nodup) (hv : ∀ o ∈ asks ++ bids, OrderPos o) :
    clFilledIds (asks ++ bids) s.filled = true ∧ clPartialPair s = true ∧ clPartialLast asks bids s = true ∧
    partialSplitViolation asks bids s = none ∧ clFullUnchanged (asks ++ bids) s = true := by
  obtain ⟨hn, hperm, hpf, hpl⟩ := sound_ctx hp hs hid
  have hids := (filled_ids hp).1
  have hords := filledOrders_orders hp
  have hn' : ((p.asks ++ p.bids).map (·.id)).Nodup := by
    rw [← hords, List.map_map]; exact hn
  have c1 : clFilledIds (asks ++ bids) s.filled = true := by
    simp only [clFilledIds, Bool.and_eq_true, decide_eq_true_eq, List.all_eq_true]
    constructor
    · rw [hperm.length_eq]
      have := congrArg List.length hids
      simpa using this
    · intro o ho
      rw [(hperm.filter (fun g : FilledOrder => decide (g.order.id = o.id))).length_eq]
      exact filter_length_eq_one (fun g : FilledOrder => g.order.id) o.id _ hn (by rw [hids]; exact List.mem_map_of_mem ho)
  -- membership in the plan's orders, by id
  have memOrd : ∀ f ∈ Plan.filledOrders p, f.order ∈ p.asks ++ p.bids := by
    intro f hf; rw [← hords]; exact List.mem_map_of_mem hf
  rcases partial_facts hp with ⟨hnone, heq⟩ | ⟨l, o, f, amt, hsome, ho, hlast, hf, hfid, hlid, hsplit, hothers⟩
  · -- nothing is partial
    have e : (s.fullyFilled, s.partialFilled) = (Plan.filledOrders p, none) := by
      rw [hpf, hnone]; rfl
    simp only [Prod.mk.injEq] at e
    obtain ⟨e1, e2⟩ := e
    have hl : s.partialLeft = none := by rw [hpl, hnone]
    refine ⟨c1, by simp [clPartialPair, hl, e2], by simp [clPartialLast, hl], by simp [partialSplitViolation, hl], ?_⟩
    simp only [clFullUnchanged, List.all_eq_true, e1]
    intro g hg
    have hg' : g.order ∈ asks ++ bids := by rw [← heq]; exact memOrd g hg
    rw [find?_of_nodup hid hg']
    simp
  · have hl : s.partialLeft = some l := by rw [hpl, hsome]
    have e : (s.fullyFilled, s.partialFilled) =
        ((Plan.filledOrders p).filter (fun g => g.order.id ≠ l.id),
         ((Plan.filledOrders p).filter (fun g => g.order.id = l.id)).getLast?) := by
      rw [hpf, hsome]; rfl
    simp only [Prod.mk.injEq] at e
    obtain ⟨e1, e2⟩ := e
    -- the partially filled order is the filled half `f`
    have hlen := filter_length_eq_one (fun g : FilledOrder => g.order.id) l.id (Plan.filledOrders p) hn (by
      rw [hids, hlid]; exact List.mem_map_of_mem ho)
    obtain ⟨pf, hpfeq⟩ : ∃ pf, (Plan.filledOrders p).filter (fun g => g.order.id = l.id) = [pf] :=
      List.length_eq_one_iff.mp hlen
    have hpf2 : s.partialFilled = some pf := by rw [e2, hpfeq]; rfl
    have hpfmem : pf ∈ (Plan.filledOrders p).filter (fun g => g.order.id = l.id) := by rw [hpfeq]; simp
    obtain ⟨hpfm, hpfid⟩ := List.mem_filter.mp hpfmem
    have hpfid : pf.order.id = l.id := by simpa using hpfid
    have hpford : pf.order = f :=
      eq_of_mem_same_key (·.id) hn' (memOrd pf hpfm) hf (by rw [hpfid, hlid, hfid])
    have hfind : (asks ++ bids).find? (fun x => x.id = l.id) = some o := by
      rw [hlid]; exact find?_of_nodup hid ho
    have hfa : f.assets = amt := (split_exact hsplit).2.2.2.2.2.1
    refine ⟨c1, by simp [clPartialPair, hl, hpf2], ?_, ?_, ?_⟩
    · simp only [clPartialLast, hl, hpf2, hfind, hpfid, decide_true, Bool.true_and, Bool.or_eq_true, decide_eq_true_eq]
      exact hlast
    · simp only [partialSplitViolation, hl, hpf2, hfind, hpford, hfa]
      rw [split_checker_sound hsplit (hv o ho).price]; rfl
    · simp only [clFullUnchanged, List.all_eq_true, e1]
      intro g hg
      obtain ⟨hgm, hgid⟩ := List.mem_filter.mp hg
      have hgid : g.order.id ≠ l.id := by simpa using hgid
      have hg' : g.order ∈ asks ++ bids := hothers _ (memOrd g hgm) hgid
      rw [find?_of_nodup hid hg']
      simp


def IdxPos (idx : Indexed) : Prop := ∀ q ∈ idx, q.2 ≠ [] ∧ ∀ c ∈ q.2, 0 < c.2

theorem idxPos_insert {idx : Indexed} {a : Addr} {cs : Coins} (h : IdxPos idx)
    (hc : cs ≠ [] ∧ ∀ c ∈ cs, 0 < c.2) : IdxPos (idx.insert a cs) ∧ idx.insert a cs ≠ [] := by
  induction idx with
  | nil =>
    simp only [Indexed.insert]
    exact ⟨by intro q hq; simp at hq; subst hq; exact hc, by simp⟩
  | cons x rest ih =>
    obtain ⟨a', cs'⟩ := x
    simp only [Indexed.insert]
    have hx := h (a', cs') (by simp)
    have hrest : IdxPos rest := fun q hq => h q (by simp [hq])
    by_cases he : a' = a
    · simp only [he, if_true]
      refine ⟨?_, by simp⟩
      intro q hq
      simp only [List.mem_cons] at hq
      rcases hq with rfl | hq
      · refine ⟨by simp [hx.1], ?_⟩
        intro c hcm
        rcases List.mem_append.mp hcm with h' | h'
        · exact hx.2 c h'
        · exact hc.2 c h'
      · exact hrest q hq
    · simp only [he, if_false]
      refine ⟨?_, by simp⟩
      intro q hq
      simp only [List.mem_cons] at hq
      rcases hq with rfl | hq
      · exact hx
      · exact (ih hrest).1 q hq

theorem idxPos_foldl (den : Denom) (ds : List (Addr × Int)) (acc : Indexed) (hacc : IdxPos acc)
    (hds : ∀ d ∈ ds, 0 < d.2) :
    IdxPos (ds.foldl (fun idx d => idx.add d.1 [(den, d.2)]) acc) ∧
    ((acc ≠ [] ∨ ds ≠ []) → ds.foldl (fun idx d => idx.add d.1 [(den, d.2)]) acc ≠ []) := by
  induction ds generalizing acc with
  | nil => exact ⟨hacc, by intro h; simpa using h⟩
  | cons d rest ih =>
    have hd := hds d (by simp)
    have hz : allZero [(den, d.2)] = false := by simp [allZero]; omega
    have hadd : Indexed.add acc d.1 [(den, d.2)] = Indexed.insert acc d.1 [(den, d.2)] := by
      simp [Indexed.add, hz]
    obtain ⟨i1, i2⟩ := idxPos_insert (a := d.1) hacc (cs := [(den, d.2)]) ⟨by simp, by intro c hc; simp at hc; subst hc; exact hd⟩
    simp only [List.foldl_cons, hadd]
    obtain ⟨j1, j2⟩ := ih _ i1 (fun d' hd' => hds d' (by simp [hd']))
    exact ⟨j1, fun _ => j2 (Or.inl i2)⟩

theorem transfer_positive_of (den : Denom) (owner : Addr) (amt : Int) (ds : List (Addr × Int))
    (hamt : 0 < amt) (hds : ∀ d ∈ ds, 0 < d.2) (hne : ds ≠ []) :
    Transfer.positive ⟨[(owner, [(den, amt)])], indexDists den ds⟩ = true ∧
    Transfer.positive ⟨indexDists den ds, [(owner, [(den, amt)])]⟩ = true := by
  obtain ⟨h1, h2⟩ := idxPos_foldl den ds [] (by intro q hq; simp at hq) hds
  have hne' : indexDists den ds ≠ [] := h2 (Or.inr hne)
  have hall : ∀ q ∈ indexDists den ds, (!q.2.isEmpty && q.2.all fun c => decide (0 < c.2)) = true := by
    intro q hq
    obtain ⟨a, b⟩ := h1 q hq
    simp only [Bool.and_eq_true, Bool.not_eq_true', List.isEmpty_eq_false_iff, List.all_eq_true, decide_eq_true_eq]
    exact ⟨a, b⟩
  constructor
  · simp only [Transfer.positive, Bool.and_eq_true, Bool.not_eq_true', List.isEmpty_eq_false_iff, List.all_eq_true]
    refine ⟨⟨by simp, hne'⟩, ?_⟩
    intro q hq
    simp only [List.cons_append, List.nil_append, List.mem_cons] at hq
    rcases hq with rfl | hq
    · simp [hamt]
    · simpa using hall q hq
  · simp only [Transfer.positive, Bool.and_eq_true, Bool.not_eq_true', List.isEmpty_eq_false_iff, List.all_eq_true]
    refine ⟨⟨hne', by simp⟩, ?_⟩
    intro q hq
    simp only [List.mem_append, List.mem_singleton] at hq
    rcases hq with hq | rfl
    · simpa using hall q hq
    · simp [hamt]

theorem cl_positive (hs : p.settlement = .ok s) : clPositive s = true := by
  obtain ⟨ta, tb, _, _, ra, rb, ht, _⟩ := settlement_unfold hs
  simp only [clPositive, List.all_eq_true, ht]
  intro t ht'
  rcases List.mem_append.mp ht' with h | h
  · obtain ⟨k, o, _, hg⟩ := recordSide_forall ra t h
    unfold getAssetTransfer at hg
    split at hg; · simp at hg
    rename_i hpos
    split at hg; · simp at hg
    rename_i hany
    simp only [Except.ok.injEq] at hg
    subst hg
    have hds : ∀ d ∈ distsOfAsk p.trA p.bids k, 0 < d.2 := by
      intro d hd
      simp only [Bool.not_eq_true, List.any_eq_false, decide_eq_true_eq] at hany
      have := hany d hd
      omega
    have hne : distsOfAsk p.trA p.bids k ≠ [] := by
      intro hnil
      simp only [distsOfAsk, List.map_eq_nil_iff] at hnil
      simp only [filledA, hnil, List.map_nil, List.sum_nil] at hpos
      omega
    exact (transfer_positive_of o.assetsDenom o.owner _ _ (by omega) hds hne).1
  · obtain ⟨k, o, _, hg⟩ := recordSide_forall rb t h
    unfold getPriceTransfer at hg
    split at hg; · simp at hg
    rename_i hpos
    split at hg; · simp at hg
    rename_i hany
    simp only [Except.ok.injEq] at hg
    subst hg
    have hds : ∀ d ∈ distsOfBid p.trP p.asks k, 0 < d.2 := by
      intro d hd
      simp only [Bool.not_eq_true, List.any_eq_false, decide_eq_true_eq] at hany
      have := hany d hd
      omega
    have hne : distsOfBid p.trP p.asks k ≠ [] := by
      intro hnil
      simp only [distsOfBid, List.map_eq_nil_iff] at hnil
      simp only [filledB, hnil, List.map_nil, List.sum_nil] at hpos
      omega
    exact (transfer_positive_of o.priceDenom o.owner _ _ (by omega) hds hne).1

/-- **The settlement checker accepts every settlement the model builds** from stored orders with
distinct ids and a valid ratio: `settlementViolation` is the conjunction of the conclusions of the
theorems of `PvProofs.C01`, so a `fail:<clause>` verdict on the implementation's output is a genuine
departure from them. -/
theorem settlement_checker_sound (hp : plan asks bids lookup = .ok p) (hs : p.settlement = .ok s)
    (hid : ((asks ++ bids).map (·.id)).Nodup) (hv : ∀ o ∈ asks ++ bids, OrderPos o)
    {ratio : Option Ratio} (hlk : lookup (p.asks.headD default).priceDenom = .ok ratio)
    (hr : ∀ r, ratio = some r → 0 < r.priceAmt ∧ 0 ≤ r.feeAmt) :
    settlementViolation asks bids ratio s = none := by
  obtain ⟨a1, a2, a3, a4, a5⟩ := cl_ids_partial hp hs hid hv
  obtain ⟨b1, b2, b3, b4⟩ := cl_elementwise hp hs hid hv hlk hr
  obtain ⟨c1, c2, c3⟩ := cl_transfers hp hs hid
  obtain ⟨d1, d2⟩ := cl_conserved hp hs hid
  have e1 := cl_positive hs
  simp [settlementViolation, a1, a2, a3, a4, a5, b1, b2, b3, b4, c1, c2, c3, d1, d2, e1]


end checker
end PvProofs.Settle

namespace PvProofs.C01
open PvModel PvModel.Settle PvProofs.Settle

/-- the price denom the seller ratio is looked up for: that of the first ask, before or after `splitPartial`
(a split changes only assets, price and fees) -/
theorem plan_head_priceDenom {asks bids : List Order} {lookup : Denom → Except Err (Option Ratio)} {p : Plan}
    (hp : plan asks bids lookup = .ok p) :
    (p.asks.headD default).priceDenom = (asks.headD default).priceDenom := by
  rcases at_most_one_partial hp with ⟨a, _, _⟩ | ⟨init, o, f, u, a1, a2, _, _, _, a6⟩ | ⟨_, _, _, _, _, _, a3, _⟩
  · rw [a]
  · obtain ⟨_, _, _, _, hpd, _⟩ := (split_exact a6).2.2.2.1
    rw [a1, a2]
    cases init with
    | nil => simpa using hpd
    | cons x t => rfl
  · rw [a3]

/-- **Checker soundness for `BuildSettlement`.**  For a request in the property's domain (stored
orders, distinct ids) and a valid seller ratio, whatever `buildSettlement` returns passes every clause
of the checker the driver runs on the implementation's output.  The ratio is the one the lookup
returns **for the price denom of the request** (that of its first ask) — nothing is assumed about
other denoms, so the keeper's own `getSellerSettlementRatio` (which fails for every other denom when
the market has ratios) satisfies the hypothesis: see `msgMarketSettle_checker_sound`. -/
theorem buildSettlement_checker_sound {asks bids : List Order} {lookup : Denom → Except Err (Option Ratio)}
    {s : Settlement} {ratio : Option Ratio} (h : buildSettlement asks bids lookup = .ok s)
    (hdom : inDomain asks bids = true) (hlk : lookup (asks.headD default).priceDenom = .ok ratio)
    (hr : ∀ r, ratio = some r → 0 < r.priceAmt ∧ 0 ≤ r.feeAmt) :
    settlementViolation asks bids ratio s = none := by
  obtain ⟨p, hp, hs⟩ := buildSettlement_eq.mp h
  simp only [inDomain, Bool.and_eq_true, List.all_eq_true, decide_eq_true_eq] at hdom
  exact settlement_checker_sound hp hs hdom.2 (fun o ho => orderPos_of_valid (hdom.1 o ho))
    (by rw [plan_head_priceDenom hp]; exact hlk) hr

/-- non-vacuity: the example request of `C01Examples` satisfies the hypotheses -/
example : inDomain
    [⟨1, true, "S1", "apple", 10, "usd", 100, [("usd", 2)], false⟩, ⟨2, true, "X1", "apple", 5, "usd", 50, [("fig", 1)], true⟩]
    [⟨11, false, "B1", "apple", 6, "usd", 66, [("fig", 3)], false⟩, ⟨12, false, "X1", "apple", 4, "usd", 48, [], false⟩,
     ⟨13, false, "B2", "apple", 10, "usd", 120, [("fig", 10), ("usd", 20)], true⟩] = true := by decide

/-- whatever the keeper's `getSellerSettlementRatio` returns without error is the market's ratio -/
theorem lookup_ok {s : KState} {d : Denom} {ratio : Option Ratio} (h : s.lookup d = .ok ratio) : ratio = s.ratio := by
  unfold KState.lookup at h
  split at h
  · rename_i hn; rw [hn]; simpa using h.symm
  · rename_i r hr'
    split at h
    · rw [hr']; simpa using h.symm
    · simp at h

/-- the keeper's lookup satisfies the hypothesis of `buildSettlement_checker_sound` (at the request's
price denom) and NOT the former `∀ d, lookup d = .ok ratio` (it fails at every other denom) -/
example : (⟨some ⟨"usd", 1000, "usd", 3⟩, [], 0, 1, [], []⟩ : KState).lookup "usd" = .ok (some ⟨"usd", 1000, "usd", 3⟩) ∧
    ¬ ∃ ratio, ∀ d, (⟨some ⟨"usd", 1000, "usd", 3⟩, [], 0, 1, [], []⟩ : KState).lookup d = .ok ratio := by
  refine ⟨by decide, ?_⟩
  rintro ⟨ratio, h⟩
  have h1 := h "fig"
  simp [KState.lookup] at h1

/-- **The settlement checker is sound for every accepted `MsgMarketSettle` of every reachable state.**
In a state whose order store satisfies `StoreInv` (`history_invariant`) and whose market ratio is
valid (`FeeRatio.Validate`), the settlement the keeper builds for an accepted message passes every
clause of `settlementViolation` with the market's own ratio: no hypothesis on the request or on the
lookup is left. -/
theorem msgMarketSettle_checker_sound {s s' : KState} {m c : Addr} {a b : List Nat} {ep : Bool}
    (hI : StoreInv s) (hr : ∀ r, s.ratio = some r → 0 < r.priceAmt ∧ 0 ≤ r.feeAmt)
    (h : s.msgMarketSettle m c a b ep = .ok s') :
    ∃ asks bids st, s.getOrders true a "" = .ok asks ∧ s.getOrders false b "" = .ok bids ∧
      buildSettlement asks bids s.lookup = .ok st ∧ settlementViolation asks bids s.ratio st = none := by
  obtain ⟨asks, bids, st, L, ha, hb, hst, _, _, _, hv, hid⟩ := msgMarketSettle_covered hI h
  obtain ⟨p, hp, hs⟩ := buildSettlement_eq.mp hst
  obtain ⟨_, ratio, hlk, _⟩ := fee_formula hp
  have hrr := lookup_ok hlk
  subst hrr
  exact ⟨asks, bids, st, ha, hb, hst, settlement_checker_sound hp hs hid hv hlk hr⟩

end PvProofs.C01
