import PvModel.SettleSpec
namespace PvProofs.C01
end PvProofs.C01
