/-
C01 — order settlement moves exactly the agreed assets, price and fees.

Property theorems only (helper lemmas live in `PvProofs/Lemmas/Settle*.lean`).  All statements are
for every list of asks and bids, every amount, every ratio; where the Go code can only be entered
with stored orders (positive amounts, `Order.Validate`) that is an explicit hypothesis.
-/
import PvProofs.Lemmas.SettleFees
import Mathlib.Tactic.SplitIfs

namespace PvProofs.C01
open PvModel PvModel.Settle PvModel.Coins PvModel.Ledger PvProofs.Settle

/-! ## 1. `Order.Split` is exact -/

/-- **Split exactness.**  If `Order.Split` succeeds then the filled amount is strictly inside the
order, the order allows partial fills, the two halves are the order with only assets, price and
fees changed, and assets, price and every fee coin add up to the original *and* keep the original
`assets : price : fee` proportions exactly — for the filled half and for what is left. -/
theorem split_exact {o a b : Order} {f : Int} (h : o.split f = .ok (a, b)) :
    0 < f ∧ f < o.assets ∧ o.allowPartial = true ∧
    a.sameParty o ∧ b.sameParty o ∧
    a.assets = f ∧ a.assets + b.assets = o.assets ∧
    a.price + b.price = o.price ∧
    a.price * o.assets = o.price * a.assets ∧ b.price * o.assets = o.price * b.assets ∧
    ∀ d, amountOf a.fees d + amountOf b.fees d = amountOf o.fees d ∧
         amountOf a.fees d * o.assets = amountOf o.fees d * a.assets ∧
         amountOf b.fees d * o.assets = amountOf o.fees d * b.assets := by
  have F := split_facts h
  have ha := F.a_assets
  have hb := F.b_assets
  refine ⟨F.pos, F.lt, F.allowed, F.a_party, F.b_party, ha, by omega, F.price_sum, ?_, ?_, ?_⟩
  · rw [ha]; exact F.price_prop
  · rw [hb]
    have h1 := F.price_sum
    have h2 := F.price_prop
    have : b.price = o.price - a.price := by omega
    rw [this]; linarith [Int.sub_mul o.price a.price o.assets, Int.mul_sub o.price o.assets f]
  · intro d
    have h1 := F.fee_sum d
    have h2 := F.fee_prop d
    refine ⟨h1, by rw [ha]; exact h2, ?_⟩
    rw [hb]
    have : amountOf b.fees d = amountOf o.fees d - amountOf a.fees d := by omega
    rw [this]
    linarith [Int.sub_mul (amountOf o.fees d) (amountOf a.fees d) o.assets,
      Int.mul_sub (amountOf o.fees d) o.assets f]

/-- Both halves of a split keep a positive price (so the remainder is again a valid order). -/
theorem split_prices_positive {o a b : Order} {f : Int} (h : o.split f = .ok (a, b)) (hp : 0 < o.price) :
    0 < a.price ∧ 0 < b.price := by
  obtain ⟨hf, hlt, _, _, _, ha, hsum, _, h1, h2, _⟩ := split_exact h
  have hA : 0 < o.assets := by omega
  constructor
  · by_contra hn
    have : a.price * o.assets ≤ 0 := Int.mul_nonpos_of_nonpos_of_nonneg (by omega) (by omega)
    have : 0 < o.price * a.assets := Int.mul_pos hp (by omega)
    omega
  · by_contra hn
    have : b.price * o.assets ≤ 0 := Int.mul_nonpos_of_nonpos_of_nonneg (by omega) (by omega)
    have : 0 < o.price * b.assets := Int.mul_pos hp (by omega)
    omega

/-- The amounts on hold for the two halves add up to the hold of the original order
(`GetHoldAmount`: ask = assets + flat fee unless it is in the price denom; bid = price + fees). -/
theorem split_hold {o a b : Order} {f : Int} (h : o.split f = .ok (a, b)) (d : Denom) :
    amountOf a.holdAmount d + amountOf b.holdAmount d = amountOf o.holdAmount d := by
  obtain ⟨_, _, _, ha, hb, _, hsum, hps, _, _, hfee⟩ := split_exact h
  have hfd := (hfee d).1
  obtain ⟨_, e1, _, e3, e5, _⟩ := ha
  obtain ⟨_, e2, _, e4, e6, _⟩ := hb
  unfold Order.holdAmount
  rw [e1, e2, e3, e4, e5, e6]
  by_cases hk : o.isAsk = true
  · simp only [hk, if_true, amountOf_cons]
    have := amountOf_filter_denom a.fees (fun x => decide (x ≠ o.priceDenom)) d
    have := amountOf_filter_denom b.fees (fun x => decide (x ≠ o.priceDenom)) d
    have := amountOf_filter_denom o.fees (fun x => decide (x ≠ o.priceDenom)) d
    simp only [*]
    split_ifs <;> omega
  · simp only [hk, Bool.false_eq_true, if_false, amountOf_append, amountOf_cons, amountOf_nil]
    split_ifs <;> omega

/-- The checker the driver runs on the implementation's `Order.Split` output accepts everything the
model produces for a stored order: `splitViolation` is the conclusion of `split_exact`,
`split_prices_positive`, `split_hold`. -/
theorem split_checker_sound {o a b : Order} {f : Int} (h : o.split f = .ok (a, b)) (hp : 0 < o.price) :
    splitViolation o f a b = none := by
  obtain ⟨hf, hlt, hal, ha, hb, haf, hsum, hps, hpa, hpb, hfee⟩ := split_exact h
  obtain ⟨hpa', hpb'⟩ := split_prices_positive h hp
  have hbf : b.assets = o.assets - f := by omega
  have c6 : coinsEq (a.fees ++ b.fees) o.fees = true :=
    coinsEq_of_forall (fun d => by simp [(hfee d).1])
  have c7 : proportional a o f o.assets = true := by
    simp only [proportional, Bool.and_eq_true, decide_eq_true_eq, List.all_eq_true]
    exact ⟨⟨by rw [haf]; exact Int.mul_comm _ _, by rw [← haf]; exact hpa⟩,
      fun d _ => by rw [← haf]; exact (hfee d).2.1⟩
  have c8 : proportional b o (o.assets - f) o.assets = true := by
    simp only [proportional, Bool.and_eq_true, decide_eq_true_eq, List.all_eq_true]
    exact ⟨⟨by rw [hbf]; exact Int.mul_comm _ _, by rw [← hbf]; exact hpb⟩,
      fun d _ => by rw [← hbf]; exact (hfee d).2.2⟩
  have c10 : coinsEq (a.holdAmount ++ b.holdAmount) o.holdAmount = true :=
    coinsEq_of_forall (fun d => by simp [split_hold h d])
  unfold splitViolation
  rw [if_neg (not_not.mpr ⟨hf, hlt⟩), if_neg (not_not.mpr hal), if_neg (not_not.mpr ⟨ha, hb⟩),
    if_neg (not_not.mpr ⟨haf, hsum⟩), if_neg (not_not.mpr hps), if_neg (not_not.mpr c6),
    if_neg (not_not.mpr c7), if_neg (not_not.mpr c8), if_neg (not_not.mpr ⟨hpa', hpb'⟩),
    if_neg (not_not.mpr c10)]

/-- **`Order.Split` refuses only when it must.**  It succeeds exactly when the filled amount is
strictly inside the order, the order allows partial fills, the price and every fee coin times the
filled amount are divisible by the order's assets — and those products fit 256 bits (the one
technical limit: `sdkmath.Int.Mul` panics beyond). -/
theorem split_ok_iff (o : Order) (f : Int) :
    (∃ a b, o.split f = .ok (a, b)) ↔
      0 < f ∧ f < o.assets ∧ o.allowPartial = true ∧
      fits256 (o.price * f) = true ∧ (o.price * f).tmod o.assets = 0 ∧
      ∀ c ∈ o.fees, fits256 (c.2 * f) = true ∧ (c.2 * f).tmod o.assets = 0 := by
  constructor
  · rintro ⟨a, b, h⟩
    have F := split_facts h
    unfold Order.split at h
    split at h; · simp at h
    split at h; · simp at h
    split at h; · simp at h
    split at h; · simp at h
    split at h; · simp at h
    rename_i pp hpp
    obtain ⟨rfl, hfit⟩ := mul_ok hpp
    split at h; · simp at h
    rename_i hrem
    split at h; · simp at h
    rename_i ff hff
    exact ⟨F.pos, F.lt, F.allowed, hfit, by simpa using hrem, (splitFees_ok_iff f o.assets o.fees).mp ⟨ff, hff⟩⟩
  · rintro ⟨h1, h2, h3, h4, h5, h6⟩
    obtain ⟨ff, hff⟩ := (splitFees_ok_iff f o.assets o.fees).mpr h6
    have hm : mul o.price f = .ok (o.price * f) := by simp [mul, h4]
    unfold Order.split
    rw [if_neg (by omega), if_neg (by omega), if_neg (by omega), if_neg (by simp [h3])]
    simp only [hm, h5, ne_eq, not_true_eq_false, if_false, hff]
    exact ⟨_, _, rfl⟩


/-! ## 2. `BuildSettlement`

`plan asks bids lookup = .ok p` is `BuildSettlement` up to and including `setFeesToPay`
(`p.asks`/`p.bids` are the orders after `splitPartial`, `p.trA`/`p.trP` the recorded asset and price
distributions); `p.settlement = .ok s` is `validateFulfillments`, `buildTransfers`, `populateFilled`.
`buildSettlement` is their composition (`buildSettlement_eq`). -/

theorem buildSettlement_eq {asks bids : List Order} {lookup : Denom → Except Err (Option Ratio)} {s : Settlement} :
    buildSettlement asks bids lookup = .ok s ↔ ∃ p, plan asks bids lookup = .ok p ∧ p.settlement = .ok s := by
  unfold buildSettlement
  constructor
  · intro h
    split at h
    · simp at h
    · rename_i p hp; exact ⟨p, hp, h⟩
  · rintro ⟨p, hp, hs⟩
    rw [hp]; exact hs

/-- **At most one order is partially filled; it is the last of its list, allows partial fills, and
is split exactly** (so `split_exact` applies to it).  Every other order goes through unchanged. -/
theorem at_most_one_partial {asks bids : List Order} {lookup : Denom → Except Err (Option Ratio)} {p : Plan}
    (hp : plan asks bids lookup = .ok p) :
    (p.asks = asks ∧ p.bids = bids ∧ p.partialLeft = none) ∨
    (∃ init o f u, asks = init ++ [o] ∧ p.asks = init ++ [f] ∧ p.bids = bids ∧ p.partialLeft = some u ∧
        o.allowPartial = true ∧ o.split (filledA p.trA init.length) = .ok (f, u)) ∨
    (∃ init o f u, bids = init ++ [o] ∧ p.bids = init ++ [f] ∧ p.asks = asks ∧ p.partialLeft = some u ∧
        o.allowPartial = true ∧ o.split (filledB p.trA init.length) = .ok (f, u)) := by
  obtain ⟨left1, ratio, _, _, h3, h4, _⟩ := plan_unfold hp
  rcases splitOrderFulfillments_spec h3 with ⟨a1, a2, _⟩ | ⟨init, o, f, u, a1, a2, _, a4, a5, _⟩
  · rcases splitOrderFulfillments_spec h4 with ⟨b1, b2, _⟩ | ⟨init, o, f, u, b1, b2, _, b4, b5, _⟩
    · left; exact ⟨a1, b1, by rw [b2, a2]⟩
    · right; right
      simp only [Nat.zero_add] at b5
      exact ⟨init, o, f, u, b1, b2, a1, b4, (split_exact b5).2.2.1, b5⟩
  · rcases splitOrderFulfillments_spec h4 with ⟨b1, b2, _⟩ | ⟨_, _, _, _, _, _, b3, _⟩
    · right; left
      simp only [Nat.zero_add] at a5
      exact ⟨init, o, f, u, a1, a2, b1, by rw [b2, a4], (split_exact a5).2.2.1, a5⟩
    · rw [a4] at b3; cases b3

/-- **Every order is filled exactly.**  If `BuildSettlement` succeeds, every ask (after the split of
a partial one) gives exactly its assets and is credited at least its price; every bid receives
exactly its assets and pays exactly its price.  (`filledA`/`filledB` are what the recorded
distributions move from/to the order; `account_deltas` ties them to the transfers.) -/
theorem orders_filled_exactly {p : Plan} {s : Settlement} (hs : p.settlement = .ok s) :
    (∀ k o, p.asks[k]? = some o → filledA p.trA k = o.assets ∧ o.price ≤ filledA p.trP k) ∧
    (∀ k o, p.bids[k]? = some o → filledB p.trA k = o.assets ∧ filledB p.trP k = o.price) := by
  obtain ⟨ta, tb, v1, v2, _⟩ := settlement_unfold hs
  constructor
  · intro k o hk
    obtain ⟨h1, _, h3⟩ := validateSide_ok v1 k o hk
    rw [Nat.zero_add] at h1 h3
    exact ⟨h3.symm, h1 rfl⟩
  · intro k o hk
    obtain ⟨_, h2, h3⟩ := validateSide_ok v2 k o hk
    rw [Nat.zero_add] at h2 h3
    exact ⟨h3.symm, (h2 rfl).symm⟩

/-- **Conservation through allocation.**  The assets all asks give are the assets all bids receive,
and the price all bids pay is the price all asks receive (hence `Σ ask received = Σ bid price`). -/
theorem conservation {asks bids : List Order} {lookup : Denom → Except Err (Option Ratio)} {p : Plan}
    {s : Settlement} (hp : plan asks bids lookup = .ok p) (hs : p.settlement = .ok s) :
    (p.asks.map (·.assets)).sum = (p.bids.map (·.assets)).sum ∧
    sumIdx (fun k _ => filledA p.trP k) 0 p.asks = (p.bids.map (·.price)).sum ∧
    (p.asks.map (·.price)).sum ≤ (p.bids.map (·.price)).sum := by
  obtain ⟨ad, pd, W⟩ := plan_wf hp
  obtain ⟨hA, hB⟩ := orders_filled_exactly hs
  have a1 : sumIdx (fun k _ => filledA p.trA k) 0 p.asks = sumTr (·.amt) p.trA :=
    sumIdx_credits (·.ask) p.trA p.asks _ (fun e he => by have := W.rA e he; omega)
  have a2 : sumIdx (fun k _ => filledB p.trA k) 0 p.bids = sumTr (·.amt) p.trA :=
    sumIdx_credits (·.bid) p.trA p.bids _ (fun e he => by have := W.rA e he; omega)
  have p1 : sumIdx (fun k _ => filledA p.trP k) 0 p.asks = sumTr (·.amt) p.trP :=
    sumIdx_credits (·.ask) p.trP p.asks _ (fun e he => by have := W.rP e he; omega)
  have p2 : sumIdx (fun k _ => filledB p.trP k) 0 p.bids = sumTr (·.amt) p.trP :=
    sumIdx_credits (·.bid) p.trP p.bids _ (fun e he => by have := W.rP e he; omega)
  have e1 : sumIdx (fun k _ => filledA p.trA k) 0 p.asks = (p.asks.map (·.assets)).sum :=
    (sumIdx_congr_idx (fun k o hk => by simpa using (hA k o hk).1)).trans (sumIdx_map (·.assets) 0 p.asks)
  have e2 : sumIdx (fun k _ => filledB p.trA k) 0 p.bids = (p.bids.map (·.assets)).sum :=
    (sumIdx_congr_idx (fun k o hk => by simpa using (hB k o hk).1)).trans (sumIdx_map (·.assets) 0 p.bids)
  have e3 : sumIdx (fun k _ => filledB p.trP k) 0 p.bids = (p.bids.map (·.price)).sum :=
    (sumIdx_congr_idx (fun k o hk => by simpa using (hB k o hk).2)).trans (sumIdx_map (·.price) 0 p.bids)
  have e4 : (p.asks.map (·.price)).sum ≤ sumIdx (fun k _ => filledA p.trP k) 0 p.asks := by
    rw [← sumIdx_map (·.price) 0 p.asks]
    exact sumIdx_le (fun k o hk => by simpa using (hA k o hk).2)
  refine ⟨by omega, by omega, by omega⟩

/-- **Every transfer is balanced**: per denom, the inputs' total equals the outputs' total (so the
bank's `SendCoins` / `InputOutputCoinsProv` never see an unbalanced request). -/
theorem transfers_balanced {p : Plan} {s : Settlement} (hs : p.settlement = .ok s) :
    ∀ t ∈ s.transfers, ∀ d, amountOf t.inputs.total d = amountOf t.outputs.total d := by
  obtain ⟨ta, tb, _, _, ra, rb, ht, _⟩ := settlement_unfold hs
  intro t ht' d
  rw [ht] at ht'
  rcases List.mem_append.mp ht' with h | h
  · obtain ⟨k, o, _, hg⟩ := recordSide_forall ra t h
    exact assetTransfer_balanced hg d
  · obtain ⟨k, o, _, hg⟩ := recordSide_forall rb t h
    exact priceTransfer_balanced hg d

/-- **Account-level deltas of the transfers.**  For every account and denom — one account may own
several orders, on both sides — the net effect of all transfers of a successful `BuildSettlement`
is exactly: for each of its asks `− assets + price received`, for each of its bids
`+ assets − price` (`expectedDelta`).  In particular nobody else is touched by the transfers. -/
theorem account_deltas {asks bids : List Order} {lookup : Denom → Except Err (Option Ratio)} {p : Plan}
    {s : Settlement} (hp : plan asks bids lookup = .ok p) (hs : p.settlement = .ok s) (x : Addr) (d : Denom) :
    transfersNet s.transfers x d = expectedDelta (Plan.filledOrders p) x d := by
  obtain ⟨ad, pd, W⟩ := plan_wf hp
  obtain ⟨ta, tb, v1, v2, ra, rb, ht, _, _, _⟩ := settlement_unfold hs
  have VA := validateSide_ok v1
  have VB := validateSide_ok v2
  -- transfers: assets from the asks, price from the bids
  have hta := side_deltas (t := p.trA) (takers := p.bids) (·.ask) (·.bid) ad x d ra
    (by
      intro k o tr ho hg
      rw [bal_assetTransfer hg, (W.uA o ho).1]; rfl)
    (fun e he => by have := W.rA e he; omega) (fun e he => by have := W.rA e he; omega)
  have htb := side_deltas (t := p.trP) (takers := p.asks) (·.bid) (·.ask) pd x d rb
    (by
      intro k o tr ho hg
      rw [bal_priceTransfer hg, (W.uB o ho).2.1]; rfl)
    (fun e he => by have := W.rP e he; omega) (fun e he => by have := W.rP e he; omega)
  unfold transfersNet
  rw [ht, List.flatMap_append, bal_append, hta, htb]
  -- expected deltas as index sums
  unfold Plan.filledOrders
  rw [expectedDelta_append, expectedDelta_zipFilled _ _ _ _ W.lenAF, expectedDelta_zipFilled _ _ _ _ W.lenBF]
  have eA : sumIdx (fun k o => if o.owner = x then (FilledOrder.mk o (filledA p.trP k) []).delta d else 0) 0 p.asks
      = sumIdx (fun k o => (if o.owner = x ∧ pd = d then sumTr (·.amt) (p.trP.filter (fun e => e.ask = k)) else 0)
          + - (if o.owner = x ∧ ad = d then sumTr (·.amt) (p.trA.filter (fun e => e.ask = k)) else 0)) 0 p.asks := by
    apply sumIdx_congr_idx
    intro k o hk
    have ho := W.uA o (List.mem_of_getElem? hk)
    obtain ⟨_, _, h3⟩ := VA k o hk
    simp only [Nat.zero_add] at h3 ⊢
    simp only [FilledOrder.delta, ho.1, ho.2.1, ho.2.2, if_true, h3, filledA_eq]
    by_cases c1 : o.owner = x <;> by_cases c2 : pd = d <;> by_cases c3 : ad = d <;> simp [c1, c2, c3] <;> omega
  have eB : sumIdx (fun k o => if o.owner = x then (FilledOrder.mk o (filledB p.trP k) []).delta d else 0) 0 p.bids
      = sumIdx (fun k o => (if o.owner = x ∧ ad = d then sumTr (·.amt) (p.trA.filter (fun e => e.bid = k)) else 0)
          + - (if o.owner = x ∧ pd = d then sumTr (·.amt) (p.trP.filter (fun e => e.bid = k)) else 0)) 0 p.bids := by
    apply sumIdx_congr_idx
    intro k o hk
    have ho := W.uB o (List.mem_of_getElem? hk)
    obtain ⟨_, _, h3⟩ := VB k o hk
    simp only [Nat.zero_add] at h3 ⊢
    simp only [FilledOrder.delta, ho.1, ho.2.1, ho.2.2, Bool.false_eq_true, if_false, h3, filledB_eq]
    by_cases c1 : o.owner = x <;> by_cases c2 : pd = d <;> by_cases c3 : ad = d <;> simp [c1, c2, c3] <;> omega
  rw [eA, eB, sumIdx_add, sumIdx_add, sumIdx_neg, sumIdx_neg]
  omega


/-- **Fee inputs.**  Per account and denom, the fee inputs are exactly the fees of the account's
orders. -/
theorem fee_inputs_exact {asks bids : List Order} {lookup : Denom → Except Err (Option Ratio)} {p : Plan}
    {s : Settlement} (hp : plan asks bids lookup = .ok p) (hs : p.settlement = .ok s) (x : Addr) (d : Denom) :
    s.feeInputs.amountFor x d = expectedFees (Plan.filledOrders p) x d := by
  obtain ⟨ad, pd, W⟩ := plan_wf hp
  obtain ⟨ta, tb, _, _, _, _, _, hf, _⟩ := settlement_unfold hs
  rw [amountFor_eq_bal, hf, expectedFees_zipFilled p.bids (filledB p.trP) p.bidFees 0 W.lenBF,
    expectedFees_zipFilled p.asks (filledA p.trP) p.askFees 0 W.lenAF]
  simp [Plan.filledOrders, expectedFees_append]

/-- **Fees.**  A bid pays exactly its own settlement fees; an ask pays its flat fee plus — when the
market has a seller ratio `price : fee` for the price denom — `⌈received · fee / price⌉` in the
ratio's fee denom, computed on what it actually receives. -/
theorem fee_formula {asks bids : List Order} {lookup : Denom → Except Err (Option Ratio)} {p : Plan}
    (hp : plan asks bids lookup = .ok p) :
    p.bidFees = p.bids.map (·.fees) ∧
    ∃ ratio, lookup (p.asks.headD default).priceDenom = .ok ratio ∧
      ∀ k o, p.asks[k]? = some o →
        match ratio with
        | none => p.askFees[k]? = some o.fees
        | some r => ∃ amt, p.askFees[k]? = some (o.fees ++ [(r.feeDenom, amt)]) ∧
            (0 ≤ filledA p.trP k → 0 < r.priceAmt → 0 ≤ r.feeAmt →
              Fees.IsCeilDiv (filledA p.trP k * r.feeAmt) r.priceAmt amt) := by
  obtain ⟨left1, ratio, _, _, _, _, _, h6, h7, h8⟩ := plan_unfold hp
  refine ⟨h8, ratio, h6, ?_⟩
  intro k o hk
  have := askFeesToPay_spec h7 k o hk
  cases ratio with
  | none => simpa using this
  | some r =>
    simp only [Nat.zero_add] at this
    obtain ⟨amt, h1, h2⟩ := this
    exact ⟨amt, h2, fun ha hrp hrf => (ratioFee_is_ceil h1 ha hrp hrf).2.2⟩

/-- The orders `BuildSettlement` fills are the requested orders, in the requested order (asks then
bids), with the same ids and owners (a split changes only assets, price and fees). -/
theorem filled_ids {asks bids : List Order} {lookup : Denom → Except Err (Option Ratio)} {p : Plan}
    (hp : plan asks bids lookup = .ok p) :
    (Plan.filledOrders p).map (·.order.id) = (asks ++ bids).map (·.id) ∧
    (Plan.filledOrders p).map (·.order.owner) = (asks ++ bids).map (·.owner) := by
  obtain ⟨ad, pd, W⟩ := plan_wf hp
  have e : (Plan.filledOrders p).map (·.order) = p.asks ++ p.bids := by
    simp only [Plan.filledOrders, List.map_append, zipFilled_map_order _ _ _ _ W.lenAF,
      zipFilled_map_order _ _ _ _ W.lenBF]
  have e1 : (Plan.filledOrders p).map (·.order.id) = (p.asks ++ p.bids).map (·.id) := by
    rw [← e, List.map_map]; rfl
  have e2 : (Plan.filledOrders p).map (·.order.owner) = (p.asks ++ p.bids).map (·.owner) := by
    rw [← e, List.map_map]; rfl
  rw [e1, e2]
  rcases at_most_one_partial hp with ⟨a, b, _⟩ | ⟨init, o, f, u, a1, a2, a3, _, _, a5⟩ | ⟨init, o, f, u, a1, a2, a3, _, _, a5⟩
  · rw [a, b]; exact ⟨rfl, rfl⟩
  · obtain ⟨h1, _, h3, _⟩ := (split_exact a5).2.2.2.1
    rw [a1, a2, a3]; simp [h1, h3]
  · obtain ⟨h1, _, h3, _⟩ := (split_exact a5).2.2.2.1
    rw [a1, a2, a3]; simp [h1, h3]

/-- **`populateFilled` only reorders.**  With distinct order ids, `FullyFilledOrders` followed by
`PartialOrderFilled` are exactly the orders of the plan; so the account deltas and fee totals can be
read off the returned `Settlement` alone. -/
theorem filled_is_reordering {p : Plan} {s : Settlement} (hs : p.settlement = .ok s)
    (hn : ((Plan.filledOrders p).map (·.order.id)).Nodup) (x : Addr) (d : Denom) :
    expectedDelta s.filled x d = expectedDelta (Plan.filledOrders p) x d ∧
    expectedFees s.filled x d = expectedFees (Plan.filledOrders p) x d := by
  obtain ⟨ta, tb, _, _, _, _, _, _, hpf, _⟩ := settlement_unfold hs
  exact ⟨populateFilled_sum _ _ _ _ hpf hn _, populateFilled_sum _ _ _ _ hpf hn _⟩

/-! ## 3. `closeSettlement` over the bank ledger -/

/-- **Net balance deltas of a settlement** (`closeSettlement`: all transfers, then `CollectFees`).
Over the shared `Ledger` model, for a settlement built by `BuildSettlement` from orders with distinct
ids, and *every* account `x` and denom `d`:

* `x`'s balance changes by what its filled orders say (`expectedDelta`: asks `− assets + received`,
  bids `+ assets − price`) minus the fees of its orders, plus — if `x` is the market account — all
  fees minus the exchange's share, plus — if `x` is the fee collector — the exchange's share;
* the exchange's share of a denom is `CalculateExchangeSplit` of the **total** fees of that denom, stated
  declaratively (`IsExchangeShare`): nothing when the total or the denom's split is zero, otherwise
  exactly `⌈total·split/10000⌉`, between 0 and the total;
* total supply of every denom is unchanged (no coins created or destroyed). -/
theorem closeSettlement_deltas {asks bids : List Order} {lookup : Denom → Except Err (Option Ratio)} {p : Plan}
    {s : Settlement} (hp : plan asks bids lookup = .ok p) (hs : p.settlement = .ok s)
    (hid : ((asks ++ bids).map (·.id)).Nodup)
    {market collector : Addr} {split : Denom → Nat} {L : Ledger}
    (hc : closeSettlement market collector split s = .ok L) :
    ∃ ex : Coins,
      (∀ d, IsExchangeShare (totalFees s.filled d) (split d) (amountOf ex d)) ∧
      (∀ x d, bal L x d = expectedDelta s.filled x d - expectedFees s.filled x d
          + (if market = x then totalFees s.filled d - amountOf ex d else 0)
          + (if collector = x then amountOf ex d else 0)) ∧
      (∀ d, supply L d = 0) := by
  have hn : ((Plan.filledOrders p).map (·.order.id)).Nodup := by rw [(filled_ids hp).1]; exact hid
  obtain ⟨ad, pd, W⟩ := plan_wf hp
  obtain ⟨ta, tb, _, _, _, _, _, hf, hpf, _⟩ := settlement_unfold hs
  unfold closeSettlement collectFees at hc
  split at hc; · simp at hc
  rename_i fl hfl
  split at hfl; · simp at hfl
  rename_i ex hex
  simp only [Except.ok.injEq] at hfl hc
  subst hfl hc
  have htot : ∀ d, amountOf s.feeInputs.total d = totalFees s.filled d := by
    intro d
    rw [hf, total_indexFees p.bids (filledB p.trP) p.bidFees 0 W.lenBF,
      total_indexFees p.asks (filledA p.trP) p.askFees 0 W.lenAF]
    have := populateFilled_sum _ _ _ _ hpf hn (fun f => amountOf f.actualFees d)
    simp only [totalFees, Settlement.filled]
    rw [this]
    simp [Plan.filledOrders]
  refine ⟨ex, ?_, ?_, ?_⟩
  · intro d
    obtain ⟨r, h1, h2⟩ := exchangeSplit_spec hex d
    have := exchangeShare_spec (show Fees.exchangeSplitCoin (amountOf s.feeInputs.total d) (split d) = .ok r from h1)
    rw [htot d] at this
    rw [h2]; exact this
  · intro x d
    obtain ⟨e1, e2⟩ := filled_is_reordering hs hn x d
    have h1 := account_deltas hp hs x d
    have h2 := fee_inputs_exact hp hs x d
    unfold transfersNet at h1
    simp only [bal_append, bal_debits, ← amountFor_eq_bal, bal_entries, amountOf_neg, h1, h2, e1, e2, htot d]
    split <;> split <;> omega
  · intro d
    have := bal_flatMap_ledger_supply s.transfers (transfers_balanced hs) d
    simp only [supply_append, supply_debits, supply_entries, amountOf_neg, this]
    omega

/-- **Nobody else is touched.**  An account that owns none of the settled orders and is neither the
market account nor the fee collector has every balance unchanged. -/
theorem closeSettlement_only_parties {asks bids : List Order} {lookup : Denom → Except Err (Option Ratio)} {p : Plan}
    {s : Settlement} (hp : plan asks bids lookup = .ok p) (hs : p.settlement = .ok s)
    (hid : ((asks ++ bids).map (·.id)).Nodup)
    {market collector : Addr} {split : Denom → Nat} {L : Ledger}
    (hc : closeSettlement market collector split s = .ok L)
    (x : Addr) (hx : ∀ f ∈ s.filled, f.order.owner ≠ x) (hm : market ≠ x) (hcol : collector ≠ x) (d : Denom) :
    bal L x d = 0 := by
  obtain ⟨ex, _, h2, _⟩ := closeSettlement_deltas hp hs hid hc
  rw [h2 x d, expectedDelta_not_owner _ x d hx, expectedFees_not_owner _ x d hx, if_neg hm, if_neg hcol]
  rfl

/-! ## 4. `allocatePrice` terminates, never panics, and is exact; the final validation cannot fail -/

/-- **`allocatePrice` is total and exact** (for all lists of positive prices / filled amounts).
It can only return "total ask price greater than total bid price" or die of a 256-bit overflow in
`totalLeftover·assets` — the `bidOFs[b]` index panic of the first pass, the "no bid orders left to
allocate leftovers from" panic and the model's fuel bound are all unreachable (so the leftover loop
terminates: `askFilled.length + totalLeftover + 2` rounds suffice).  When it succeeds, every bid pays
exactly its price, every ask receives at least its price, every distribution is positive. -/
theorem allocatePrice_total_and_exact {ap bp af : List Int}
    (hap : ∀ y ∈ ap, 0 < y) (hbp : ∀ y ∈ bp, 0 < y) (haf : ∀ y ∈ af, 0 < y)
    (hlen : af.length = ap.length) (hn : 0 < ap.length) :
    (∀ e, allocatePrice ap bp af = .error e → e = .askGtBid ∨ e = .overflow) ∧
    (∀ t, allocatePrice ap bp af = .ok t →
      (∀ j, filledB t j = bp.getD j 0) ∧ (∀ k, ap.getD k 0 ≤ filledA t k) ∧ (∀ e ∈ t, 0 < e.amt)) := by
  obtain ⟨h1, h2⟩ := allocatePrice_spec hap hbp haf hlen hn
  refine ⟨h1, fun t ht => ?_⟩
  obtain ⟨a, b, c⟩ := h2 t ht
  exact ⟨fun j => by rw [a j, slot_zero_eq], fun k => by rw [← slot_zero_eq]; exact b k, c⟩

/-- **The final validation cannot fail.**  For stored orders (positive amounts) and a valid ratio, once
`BuildSettlement` got past `setFeesToPay` it succeeds: `validateFulfillments` ("price … is more than /
not equal to price filled", "assets … does not equal filled assets"), the positivity checks of
`getAssetTransfer`/`getPriceTransfer` and the negative-fee check of `buildTransfers` are unreachable.
(So a settlement is rejected only for the documented reasons: bad request shape, an order that would
be left partially filled but may not be, indivisible split, ask total above bid total, ratio lookup
errors — or a 256-bit overflow.) -/
theorem final_validation_never_fails {asks bids : List Order} {lookup : Denom → Except Err (Option Ratio)} {p : Plan}
    (hp : plan asks bids lookup = .ok p) (hv : ∀ o ∈ asks ++ bids, OrderPos o)
    (hr : ∀ r, lookup (p.asks.headD default).priceDenom = .ok (some r) → 0 < r.priceAmt ∧ 0 ≤ r.feeAmt) :
    ∃ s, p.settlement = .ok s := by
  obtain ⟨left1, ratio, h1, h2, h3, h4, h5, h6, h7, h8⟩ := plan_unfold hp
  obtain ⟨ad, pd, W⟩ := plan_wf hp
  obtain ⟨posA, asA⟩ := splitOrderFulfillments_pos h3 (fun o ho => hv o (by simp [ho]))
  obtain ⟨posB, asB⟩ := splitOrderFulfillments_pos h4 (fun o ho => hv o (by simp [ho]))
  simp only [Nat.zero_add] at asA asB
  -- allocatePrice is exact
  have hap : AllPos (p.asks.map (·.price)) := by
    intro y hy
    obtain ⟨o, ho, rfl⟩ := List.mem_map.mp hy
    exact (posA o ho).price
  have hbp : AllPos (p.bids.map (·.price)) := by
    intro y hy
    obtain ⟨o, ho, rfl⟩ := List.mem_map.mp hy
    exact (posB o ho).price
  have haf : AllPos ((List.range p.asks.length).map (filledA p.trA)) := by
    intro y hy
    obtain ⟨k, hk, rfl⟩ := List.mem_map.mp hy
    have hk' : k < p.asks.length := by simpa using hk
    have hget : p.asks[k]? = some p.asks[k] := List.getElem?_eq_getElem hk'
    rw [← asA k _ hget]
    exact (posA _ (List.getElem_mem hk')).assets
  obtain ⟨_, hok⟩ := allocatePrice_spec hap hbp haf (by simp) (by simpa using W.posA)
  obtain ⟨pB, pA, pamt⟩ := hok p.trP h5
  -- validateFulfillments
  have v1 : validateSide true (filledA p.trP) (filledA p.trA) 0 p.asks = .ok () := by
    apply validateSide_of
    intro k o hk
    simp only [Nat.zero_add]
    refine ⟨fun _ => ?_, fun h => by simp at h, asA k o hk⟩
    have := pA k
    rwa [slot_zero_map p.asks (·.price) k o hk] at this
  have v2 : validateSide false (filledB p.trP) (filledB p.trA) 0 p.bids = .ok () := by
    apply validateSide_of
    intro k o hk
    simp only [Nat.zero_add]
    refine ⟨fun h => by simp at h, fun _ => ?_, asB k o hk⟩
    have := pB k
    rw [slot_zero_map p.bids (·.price) k o hk] at this
    exact this.symm
  -- buildTransfers
  have hfeesA : ∀ f ∈ p.askFees, NonnegFees f := by
    intro f hf
    obtain ⟨k, hk, rfl⟩ := List.getElem_of_mem hf
    have hk' : k < p.asks.length := by rw [← W.lenAF]; exact hk
    have hget : p.asks[k]? = some p.asks[k] := List.getElem?_eq_getElem hk'
    have hpo := posA _ (List.getElem_mem hk')
    have := askFeesToPay_spec h7 k _ hget
    cases ratio with
    | none =>
      simp only at this
      rw [List.getElem?_eq_getElem hk] at this
      simp only [Option.some.injEq] at this
      rw [this]; exact hpo.fees
    | some r =>
      simp only [Nat.zero_add] at this
      obtain ⟨amt, e1, e2⟩ := this
      rw [List.getElem?_eq_getElem hk] at e2
      simp only [Option.some.injEq] at e2
      rw [e2]
      obtain ⟨hrp, hrf⟩ := hr r h6
      have happ : 0 ≤ filledA p.trP k := by
        have := pA k
        rw [slot_zero_map p.asks (·.price) k _ hget] at this
        have := hpo.price
        omega
      obtain ⟨_, _, hceil⟩ := ratioFee_is_ceil e1 happ hrp hrf
      have hamt : 0 ≤ amt := isCeilDiv_nonneg hrp (Int.mul_nonneg happ hrf) hceil
      intro x hx
      simp only [List.mem_append, List.mem_singleton] at hx
      rcases hx with hx | rfl
      · exact hpo.fees x hx
      · exact hamt
  have hfeesB : ∀ f ∈ p.bidFees, NonnegFees f := by
    intro f hf
    rw [h8] at hf
    obtain ⟨o, ho, rfl⟩ := List.mem_map.mp hf
    exact (posB o ho).fees
  obtain ⟨ta, hta⟩ := recordSide_of (getter := getAssetTransfer p.trA p.bids) (i := 0) (os := p.asks) (fees := p.askFees)
    (fun k o hk => by
      simp only [Nat.zero_add]
      apply getAssetTransfer_ok _ W.amtA
      rw [← asA k o hk]; exact (posA o (List.mem_of_getElem? hk)).assets) hfeesA
  obtain ⟨tb, htb⟩ := recordSide_of (getter := getPriceTransfer p.trP p.asks) (i := 0) (os := p.bids) (fees := p.bidFees)
    (fun k o hk => by
      simp only [Nat.zero_add]
      apply getPriceTransfer_ok _ pamt
      rw [pB k, slot_zero_map p.bids (·.price) k o hk]; exact (posB o (List.mem_of_getElem? hk)).price) hfeesB
  unfold Plan.settlement
  rw [v1, v2, hta, htb]
  exact ⟨_, rfl⟩


/-! ## 5. Keeper level: user fills, histories

`KState` is the part of the chain state a settlement touches (order store, balances as a `Ledger`,
the market's seller ratio, the exchange's split parameters); `KState.settleOrders` / `fillBids` /
`fillAsks` / `createOrder` mirror the keeper's `SettleOrders`, `FillBids`, `FillAsks`,
`CreateAskOrder`/`CreateBidOrder`; `KState.apply` is one message with "a rejected message changes
nothing" built in (the harness checks that on the implementation). -/

/-- **`FillBids` moves exactly the agreed assets, price and fees.**  If the keeper's `FillBids` succeeds,
the ledger entries it appends change, for every account `x` and denom `d`: each filled bid's owner by
`+ assets − price − its fees`; the seller by `+ Σ prices − Σ assets − (flat fee + ratio fees)`; the
market by all fees minus the exchange's share; the fee collector by that share; nobody else; and total
supply is unchanged.  The seller's fees are exactly the flat fee of the request plus, per price coin of
the canonical price total, the market's ratio fee — the ceiling `⌈price·fee/ratio price⌉`
(`IsRatioFeeOf`; `fillBids_seller_fee_ceil` spells it out for a market with a ratio); the exchange's
share of every denom is the ceiling share of the total fees (`IsExchangeShare`). -/
theorem fillBids_deltas {s s' : KState} {m c seller : Addr} {ids : List Nat} {ta flat : Coins}
    (h : s.fillBids m c seller ids ta flat = .ok s') :
    ∃ (orders : List Order) (ratioFees : List Coins) (sellerFees ex : Coins) (L : Ledger),
      s.getOrders false ids seller = .ok orders ∧ s'.ledger = s.ledger ++ L ∧
      (∀ d, amountOf ta d = (orders.map fun o => if o.assetsDenom = d then o.assets else 0).sum) ∧
      sellerFees = flat ++ ratioFees.flatten ∧
      List.Forall₂ (IsRatioFeeOf s) (sumCoins (orders.map fun o => [(o.priceDenom, o.price)])) ratioFees ∧
      (∀ d, IsExchangeShare ((orders.map fun o => amountOf o.fees d).sum + amountOf sellerFees d) (s.splitOf d)
          (amountOf ex d)) ∧
      (∀ x d, bal L x d =
          (orders.map fun o => if o.owner = x then fillOwnerDelta o d - amountOf o.fees d else 0).sum
          + (if seller = x then - (orders.map fun o => fillOwnerDelta o d).sum - amountOf sellerFees d else 0)
          + (if m = x then (orders.map fun o => amountOf o.fees d).sum + amountOf sellerFees d - amountOf ex d else 0)
          + (if c = x then amountOf ex d else 0)) ∧
      (∀ d, supply L d = 0) := by
  unfold KState.fillBids at h
  split at h; · simp at h
  rename_i orders hor
  simp only at h
  split at h; · simp at h
  rename_i htot
  simp only [ne_eq, Decidable.not_not] at htot
  split at h; · simp at h
  rename_i ratioFees hrf
  obtain ⟨L, hL, rfl⟩ := close_unfold h
  obtain ⟨ex, hex, rfl⟩ := closeSettlement_unfold hL
  dsimp only at hex ⊢
  have hta : ∀ d, amountOf ta d = (orders.map fun o => if o.assetsDenom = d then o.assets else 0).sum := by
    intro d
    rw [← amountOf_canon ta d, ← htot, amountOf_sumCoins, List.map_map]
    congr 1; apply List.map_congr_left; intro o _; simp
  have hprice : ∀ d, amountOf (sumCoins (orders.map fun o => [(o.priceDenom, o.price)])) d
      = (orders.map fun o => if o.priceDenom = d then o.price else 0).sum := by
    intro d
    rw [amountOf_sumCoins, List.map_map]; congr 1; apply List.map_congr_left; intro o _; simp
  have hfeeTot : ∀ d, amountOf (Indexed.total (Indexed.add (orders.foldl (fun idx o => Indexed.add idx o.owner o.fees) ([] : Indexed)) seller
      (flat ++ ratioFees.flatten))) d = (orders.map fun o => amountOf o.fees d).sum + amountOf (flat ++ ratioFees.flatten) d := by
    intro d
    rw [total_add, total_foldl_orders]; simp
  refine ⟨orders, ratioFees, flat ++ ratioFees.flatten, ex, _, hor, rfl, hta, rfl,
    forall₂_imp (fun _ _ h => ratioFeeOf_spec h) (mapM_forall₂ _ _ _ hrf), ?_, ?_, ?_⟩
  · intro d
    obtain ⟨r, h1, h2⟩ := exchangeSplit_spec hex d
    unfold splitOf at h1
    rw [hfeeTot d] at h1
    rw [h2]; exact exchangeShare_spec h1
  · intro x d
    simp only [List.flatMap_cons, List.flatMap_nil, List.append_nil, Transfer.ledger, bal_append, bal_debits,
      credits_cons, credits_nil, bal_entries, amountOf_neg, bal_credits_add, bal_credits_foldl_orders,
      amountOf_cons, amountOf_nil, hta d, hprice d, hfeeTot d, fillOwnerDelta]
    have e1 : (orders.map fun o => if o.owner = x then
          ((if o.assetsDenom = d then o.assets else 0) - (if o.priceDenom = d then o.price else 0)) - amountOf o.fees d else 0).sum
        = (orders.map fun o => if o.owner = x then (if o.assetsDenom = d then o.assets else 0) + 0 else 0).sum
          - (orders.map fun o => if o.owner = x then (if o.priceDenom = d then o.price else 0) + 0 else 0).sum
          - (orders.map fun o => if o.owner = x then amountOf o.fees d else 0).sum := by
      rw [← sum_map_sub, ← sum_map_sub]
      congr 1; apply List.map_congr_left; intro o _
      split <;> omega
    have e2 : (orders.map fun o => (if o.assetsDenom = d then o.assets else 0) - (if o.priceDenom = d then o.price else 0)).sum
        = (orders.map fun o => if o.assetsDenom = d then o.assets else 0).sum
          - (orders.map fun o => if o.priceDenom = d then o.price else 0).sum := sum_map_sub _ _ _
    rw [e1, e2]
    split <;> split <;> split <;> simp <;> omega
  · intro d
    simp only [List.flatMap_cons, List.flatMap_nil, List.append_nil, Transfer.ledger, supply_append, supply_debits,
      supply_credits, supply_entries, amountOf_neg, total_cons, total_nil, amountOf_append, amountOf_nil,
      total_foldl_orders, hta d, hprice d, amountOf_cons]
    simp only [Int.add_zero, Int.zero_add]
    omega




/-- **`FillAsks` moves exactly the agreed assets, price and fees.**  If the keeper's `FillAsks` succeeds,
for every account `x` and denom `d` the appended ledger entries change: each filled ask's owner by
`− assets + price − (its flat fee + the ratio fee of its price)`; the buyer by
`+ Σ assets − Σ prices − the settlement fees it offered`; the market by all fees minus the exchange's
share; the fee collector by that share; nobody else; total supply unchanged.  Each ask's ratio fee is
the market's ratio applied to that ask's price — the ceiling `⌈price·fee/ratio price⌉` (`IsRatioFeeOf`) —
and the exchange's share of every denom is the ceiling share of the total fees (`IsExchangeShare`). -/
theorem fillAsks_deltas {s s' : KState} {m c buyer : Addr} {ids : List Nat} {tp : Denom × Int} {buyerFees : Coins}
    (h : s.fillAsks m c buyer ids tp buyerFees = .ok s') :
    ∃ (orders : List Order) (ratioFees : List Coins) (ex : Coins) (L : Ledger),
      s.getOrders true ids buyer = .ok orders ∧
      orders.mapM (fun o => s.ratioFeeOf (o.priceDenom, o.price)) = .ok ratioFees ∧
      List.Forall₂ (fun o f => IsRatioFeeOf s (o.priceDenom, o.price) f) orders ratioFees ∧
      s'.ledger = s.ledger ++ L ∧
      (∀ d, amountOf [tp] d = (orders.map fun o => if o.priceDenom = d then o.price else 0).sum) ∧
      (∀ d, IsExchangeShare (((orders.zip ratioFees).map fun p => amountOf (p.1.fees ++ p.2) d).sum
            + amountOf buyerFees d) (s.splitOf d) (amountOf ex d)) ∧
      (∀ x d, bal L x d =
          ((orders.zip ratioFees).map fun p => if p.1.owner = x then - fillOwnerDelta p.1 d - amountOf (p.1.fees ++ p.2) d else 0).sum
          + (if buyer = x then (orders.map fun o => fillOwnerDelta o d).sum - amountOf buyerFees d else 0)
          + (if m = x then ((orders.zip ratioFees).map fun p => amountOf (p.1.fees ++ p.2) d).sum + amountOf buyerFees d
              - amountOf ex d else 0)
          + (if c = x then amountOf ex d else 0)) ∧
      (∀ d, supply L d = 0) := by
  obtain ⟨td, tv⟩ := tp
  unfold KState.fillAsks at h
  split at h; · simp at h
  rename_i orders hor
  simp only at h
  split at h; · simp at h
  rename_i htot
  simp only [ne_eq, Decidable.not_not] at htot
  split at h; · simp at h
  rename_i ratioFees hrf
  obtain ⟨L, hL, rfl⟩ := close_unfold h
  obtain ⟨ex, hex, rfl⟩ := closeSettlement_unfold hL
  dsimp only at hex ⊢
  have htp : ∀ d, amountOf [(td, tv)] d = (orders.map fun o => if o.priceDenom = d then o.price else 0).sum := by
    intro d
    rw [← amountOf_canon [(td, tv)] d, ← htot, amountOf_sumCoins, List.map_map]
    congr 1; apply List.map_congr_left; intro o _; simp
  have hassets : ∀ d, amountOf (sumCoins (orders.map fun o => [(o.assetsDenom, o.assets)])) d
      = (orders.map fun o => if o.assetsDenom = d then o.assets else 0).sum := by
    intro d
    rw [amountOf_sumCoins, List.map_map]; congr 1; apply List.map_congr_left; intro o _; simp
  have hfeeTot : ∀ d, amountOf (Indexed.total (Indexed.add ((orders.zip ratioFees).foldl
      (fun idx p => Indexed.add idx p.1.owner (p.1.fees ++ p.2)) ([] : Indexed)) buyer buyerFees)) d
      = ((orders.zip ratioFees).map fun p => amountOf (p.1.fees ++ p.2) d).sum + amountOf buyerFees d := by
    intro d
    rw [total_add, total_foldl_gen]; simp
  refine ⟨orders, ratioFees, ex, _, hor, hrf,
    forall₂_imp (fun _ _ h => ratioFeeOf_spec h) (mapM_forall₂ _ _ _ hrf), rfl, htp, ?_, ?_, ?_⟩
  · intro d
    obtain ⟨r, h1, h2⟩ := exchangeSplit_spec hex d
    unfold splitOf at h1
    rw [hfeeTot d] at h1
    rw [h2]; exact exchangeShare_spec h1
  · intro x d
    have hzip : ∀ (F : Order → Int), ((orders.zip ratioFees).map fun p => F p.1).sum = (orders.map F).sum := by
      intro F
      rw [map_fst_zip_fun F orders ratioFees (mapM_ok_length _ _ _ hrf)]
    simp only [List.flatMap_cons, List.flatMap_nil, List.append_nil, Transfer.ledger, bal_append, bal_debits,
      credits_cons, credits_nil, bal_entries, amountOf_neg, bal_credits_add, bal_credits_foldl_gen,
      amountOf_cons, amountOf_nil, hassets d, hfeeTot d, fillOwnerDelta]
    have htp' := htp d
    simp only [amountOf_cons, amountOf_nil] at htp'
    have e1 : ((orders.zip ratioFees).map fun p => if p.1.owner = x then
          -((if p.1.assetsDenom = d then p.1.assets else 0) - (if p.1.priceDenom = d then p.1.price else 0))
            - amountOf (p.1.fees ++ p.2) d else 0).sum
        = - (orders.map fun o => if o.owner = x then (if o.assetsDenom = d then o.assets else 0) + 0 else 0).sum
          + (orders.map fun o => if o.owner = x then (if o.priceDenom = d then o.price else 0) + 0 else 0).sum
          - ((orders.zip ratioFees).map fun p => if p.1.owner = x then amountOf (p.1.fees ++ p.2) d else 0).sum := by
      rw [← hzip (fun o => if o.owner = x then (if o.assetsDenom = d then o.assets else 0) + 0 else 0),
        ← hzip (fun o => if o.owner = x then (if o.priceDenom = d then o.price else 0) + 0 else 0)]
      have : ∀ (l : List (Order × Coins)) (f g h : Order × Coins → Int),
          (l.map fun p => - f p + g p - h p).sum = - (l.map f).sum + (l.map g).sum - (l.map h).sum := by
        intro l f g h
        induction l with
        | nil => simp
        | cons a t ih => simp only [List.map_cons, List.sum_cons, ih]; omega
      rw [← this]
      congr 1; apply List.map_congr_left; intro p _
      split <;> omega
    have e2 : (orders.map fun o => (if o.assetsDenom = d then o.assets else 0) - (if o.priceDenom = d then o.price else 0)).sum
        = (orders.map fun o => if o.assetsDenom = d then o.assets else 0).sum
          - (orders.map fun o => if o.priceDenom = d then o.price else 0).sum := sum_map_sub _ _ _
    rw [e1, e2]
    generalize (if td = d then tv else 0) = T at htp' ⊢
    split <;> split <;> split <;> simp <;> omega
  · intro d
    have htp' := htp d
    simp only [amountOf_cons, amountOf_nil] at htp'
    simp only [List.flatMap_cons, List.flatMap_nil, List.append_nil, Transfer.ledger, supply_append, supply_debits,
      supply_credits, supply_entries, amountOf_neg, total_cons, total_nil, amountOf_append, amountOf_nil,
      total_foldl_gen, hassets d, amountOf_cons]
    generalize (if td = d then tv else 0) = T at htp' ⊢
    simp only [Int.add_zero, Int.zero_add] at htp' ⊢
    omega



theorem partialLeft_pos {asks bids : List Order} {lookup : Denom → Except Err (Option Ratio)} {st : Settlement}
    (h : buildSettlement asks bids lookup = .ok st) (hv : ∀ o ∈ asks ++ bids, OrderPos o) :
    ∀ l, st.partialLeft = some l → OrderPos l := by
  obtain ⟨p, hp, hs⟩ := buildSettlement_eq.mp h
  obtain ⟨_, _, _, _, _, _, _, _, _, hpl⟩ := settlement_unfold hs
  intro l hl
  rw [hpl] at hl
  rcases at_most_one_partial hp with ⟨_, _, a3⟩ | ⟨init, o, f, u, a1, _, _, a4, _, a6⟩ | ⟨init, o, f, u, a1, _, _, a4, _, a6⟩
  · rw [a3] at hl; cases hl
  · rw [a4] at hl; cases hl
    exact (split_orderPos a6 (hv o (by simp [a1]))).2
  · rw [a4] at hl; cases hl
    exact (split_orderPos a6 (hv o (by simp [a1]))).2

theorem storeInv_apply {s : KState} (m c : Addr) (op : KOp) (hI : StoreInv s) : StoreInv (s.apply m c op) := by
  unfold KState.apply
  cases op with
  | create o =>
    simp only
    cases h : s.createOrder o with
    | error e => exact hI
    | ok s' =>
      simp only
      unfold KState.createOrder at h
      split at h; · simp at h
      rename_i hpos
      simp only [not_not] at hpos
      split at h; · simp at h
      simp only [Except.ok.injEq] at h
      subst h
      refine ⟨?_, ?_, ?_⟩
      · intro o' ho'
        simp only [List.mem_append, List.mem_singleton] at ho'
        rcases ho' with ho' | rfl
        · exact hI.pos o' ho'
        · refine ⟨hpos.1, hpos.2.1, fun x hx => ?_⟩
          have := List.all_eq_true.mp hpos.2.2 x hx
          simp at this; omega
      · simp only [List.map_append, List.map_cons, List.map_nil]
        rw [List.nodup_append]
        refine ⟨hI.nodup, by simp, ?_⟩
        intro a ha b hb
        simp only [List.mem_singleton] at hb
        subst hb
        obtain ⟨o', ho', rfl⟩ := List.mem_map.mp ha
        have := hI.below o' ho'
        omega
      · intro o' ho'
        simp only [List.mem_append, List.mem_singleton] at ho'
        rcases ho' with ho' | rfl
        · have := hI.below o' ho'; simp only; omega
        · simp
  | settle a b ep =>
    simp only
    cases h : s.msgMarketSettle m c a b ep with
    | error e => exact hI
    | ok s' =>
      simp only
      unfold KState.msgMarketSettle at h
      split at h; · simp at h
      unfold KState.settleOrders at h
      split at h
      · simp at h
      · simp at h
      · rename_i asks bids ha hb
        split at h; · simp at h
        rename_i st hst
        split at h; · simp at h
        refine storeInv_close hI ?_ h
        apply partialLeft_pos hst
        intro o ho
        rcases List.mem_append.mp ho with h' | h'
        · exact hI.pos o (getOrders_mem ha o h').1
        · exact hI.pos o (getOrders_mem hb o h').1
  | fillBids seller ids ta flat =>
    simp only
    cases h : s.msgFillBids m c seller ids ta flat with
    | error e => exact hI
    | ok s' =>
      simp only
      unfold KState.msgFillBids at h
      split at h; · simp at h
      unfold KState.fillBids at h
      split at h; · simp at h
      simp only at h
      split at h; · simp at h
      split at h; · simp at h
      exact storeInv_close hI (by intro l hl; simp at hl) h
  | fillAsks buyer ids tp fees =>
    simp only
    cases h : s.msgFillAsks m c buyer ids tp fees with
    | error e => exact hI
    | ok s' =>
      simp only
      unfold KState.msgFillAsks at h
      split at h; · simp at h
      unfold KState.fillAsks at h
      split at h; · simp at h
      simp only at h
      split at h; · simp at h
      split at h; · simp at h
      exact storeInv_close hI (by intro l hl; simp at hl) h

/-- **History.**  Starting from an empty order store, after any sequence of order creations, market
settlements and user fills (accepted or rejected), every stored order has positive assets and price
and non-negative fees and the order ids are distinct — the hypotheses under which the theorems above
are stated.  So they apply to every settlement of every history, in particular to orders that are
the remainder of earlier partial fills. -/
theorem history_invariant (m c : Addr) (ops : List KOp) (s : KState) (hI : StoreInv s) :
    StoreInv (ops.foldl (KState.apply m c) s) := by
  induction ops generalizing s with
  | nil => exact hI
  | cons op rest ih => exact ih _ (storeInv_apply m c op hI)




/-- **Every settlement of every reachable state is covered.**  In a state whose order store
satisfies `StoreInv` (which `history_invariant` gives for every history), an accepted
`MsgMarketSettle` with distinct order ids is: fetch the orders, `BuildSettlement` on stored (positive,
distinct-id) orders, `closeSettlement`'s ledger entries appended — so `closeSettlement_deltas`,
`account_deltas`, `at_most_one_partial`, … all apply to it. -/
theorem settleOrders_covered {s s' : KState} {m c : Addr} {a b : List Nat} {ep : Bool}
    (hI : StoreInv s) (hids : (a ++ b).Nodup) (h : s.settleOrders m c a b ep = .ok s') :
    ∃ asks bids st L,
      s.getOrders true a "" = .ok asks ∧ s.getOrders false b "" = .ok bids ∧
      buildSettlement asks bids s.lookup = .ok st ∧ ep = st.partialFilled.isSome ∧
      closeSettlement m c s.splitOf st = .ok L ∧ s'.ledger = s.ledger ++ L ∧
      (∀ o ∈ asks ++ bids, OrderPos o) ∧ ((asks ++ bids).map (·.id)).Nodup := by
  unfold KState.settleOrders at h
  split at h
  · simp at h
  · simp at h
  · rename_i asks bids ha hb
    split at h; · simp at h
    rename_i st hst
    split at h; · simp at h
    rename_i hep
    simp only [ne_eq, Decidable.not_not] at hep
    obtain ⟨L, hL, rfl⟩ := close_unfold h
    refine ⟨asks, bids, st, L, ha, hb, hst, hep, hL, rfl, ?_, ?_⟩
    · intro o ho
      rcases List.mem_append.mp ho with h' | h'
      · exact hI.pos o (getOrders_mem ha o h').1
      · exact hI.pos o (getOrders_mem hb o h').1
    · rw [List.map_append, getOrders_ids ha, getOrders_ids hb]; exact hids


/-! ## 5b. The messages as the chain runs them: `ValidateBasic`, then the msg server

`KState.msgMarketSettle` / `msgFillBids` / `msgFillAsks` put the request's `ValidateBasic` (the order-id
part: at least one id, no id zero, no id twice, no id on both sides) in front of the keeper functions;
`KState.apply` — one message of a history — runs these.  So "distinct order ids" is no longer an
assumption about the request but a consequence of its acceptance, and an order is settled at most
once: not twice in one request (the request is refused and moves nothing), not again in a later one
(it has left the store, or what is left of it has). -/

theorem validateOrderIDs_ok {ids : List Nat} (h : validateOrderIDs ids = .ok ()) :
    ids ≠ [] ∧ 0 ∉ ids ∧ ids.Nodup := by
  unfold validateOrderIDs at h
  split at h; · simp at h
  rename_i h1
  split at h; · simp at h
  rename_i h2
  split at h; · simp at h
  rename_i h3
  exact ⟨h1, h2, Decidable.not_not.mp h3⟩

theorem settleValidateBasic_ok {a b : List Nat} (h : settleValidateBasic a b = .ok ()) :
    a ≠ [] ∧ b ≠ [] ∧ 0 ∉ a ++ b ∧ (a ++ b).Nodup := by
  unfold settleValidateBasic at h
  split at h; · simp at h
  rename_i ha
  split at h; · simp at h
  rename_i hb
  split at h; · simp at h
  rename_i hx
  obtain ⟨a1, a2, a3⟩ := validateOrderIDs_ok ha
  obtain ⟨b1, b2, b3⟩ := validateOrderIDs_ok hb
  refine ⟨a1, b1, by simp [a2, b2], ?_⟩
  rw [List.nodup_append]
  refine ⟨a3, b3, ?_⟩
  intro x hx1 y hy1 hxy
  subst hxy
  apply hx
  simp only [List.any_eq_true, List.contains_iff_mem]
  exact ⟨x, hx1, hy1⟩

/-- **A request that names an order twice moves nothing.**  Whatever the state, a `MsgMarketSettle`
whose ask and bid id lists together contain an id twice (in one list — adjacent or not, a list of two
or of many — or once on each side), and a `MsgFillBids` / `MsgFillAsks` whose id list does, leaves
the state (balances, orders) exactly as it was. -/
theorem repeated_ids_rejected (m c : Addr) (s : KState) :
    (∀ a b ep, ¬ (a ++ b).Nodup → s.apply m c (.settle a b ep) = s) ∧
    (∀ seller ids ta flat, ¬ ids.Nodup → s.apply m c (.fillBids seller ids ta flat) = s) ∧
    (∀ buyer ids tp fees, ¬ ids.Nodup → s.apply m c (.fillAsks buyer ids tp fees) = s) := by
  refine ⟨?_, ?_, ?_⟩
  · intro a b ep hn
    unfold KState.apply
    simp only
    cases h : s.msgMarketSettle m c a b ep with
    | error e => rfl
    | ok s' =>
      exfalso
      unfold KState.msgMarketSettle at h
      split at h; · simp at h
      rename_i hv
      exact hn (settleValidateBasic_ok hv).2.2.2
  · intro seller ids ta flat hn
    unfold KState.apply
    simp only
    cases h : s.msgFillBids m c seller ids ta flat with
    | error e => rfl
    | ok s' =>
      exfalso
      unfold KState.msgFillBids at h
      split at h; · simp at h
      rename_i hv
      exact hn (validateOrderIDs_ok hv).2.2
  · intro buyer ids tp fees hn
    unfold KState.apply
    simp only
    cases h : s.msgFillAsks m c buyer ids tp fees with
    | error e => rfl
    | ok s' =>
      exfalso
      unfold KState.msgFillAsks at h
      split at h; · simp at h
      rename_i hv
      exact hn (validateOrderIDs_ok hv).2.2

/-- **Every accepted `MsgMarketSettle` of every reachable state is covered** — `settleOrders_covered`
without the assumption on the ids: the request's `ValidateBasic` provides it.  The orders fetched
are pairwise different stored orders, so every sum of the settlement theorems counts each order once. -/
theorem msgMarketSettle_covered {s s' : KState} {m c : Addr} {a b : List Nat} {ep : Bool}
    (hI : StoreInv s) (h : s.msgMarketSettle m c a b ep = .ok s') :
    ∃ asks bids st L,
      s.getOrders true a "" = .ok asks ∧ s.getOrders false b "" = .ok bids ∧
      buildSettlement asks bids s.lookup = .ok st ∧ ep = st.partialFilled.isSome ∧
      closeSettlement m c s.splitOf st = .ok L ∧ s'.ledger = s.ledger ++ L ∧
      (∀ o ∈ asks ++ bids, OrderPos o) ∧ ((asks ++ bids).map (·.id)).Nodup := by
  unfold KState.msgMarketSettle at h
  split at h; · simp at h
  rename_i hv
  exact settleOrders_covered hI (settleValidateBasic_ok hv).2.2.2 h

/-- **A settled order cannot be settled again.**  After an accepted `MsgMarketSettle` none of the
orders it named is in the store any more, except the one order left partially filled — and that
one is there as its remainder (`PartialOrderLeft`: strictly fewer assets, `split_exact`). -/
theorem settled_orders_leave_store {s s' : KState} {m c : Addr} {a b : List Nat} {ep : Bool}
    (h : s.msgMarketSettle m c a b ep = .ok s') :
    ∃ asks bids st, s.getOrders true a "" = .ok asks ∧ s.getOrders false b "" = .ok bids ∧
      buildSettlement asks bids s.lookup = .ok st ∧
      ∀ o ∈ s'.orders, o.id ∈ a ++ b → st.partialLeft = some o := by
  unfold KState.msgMarketSettle at h
  split at h; · simp at h
  unfold KState.settleOrders at h
  split at h
  · simp at h
  · simp at h
  · rename_i asks bids ha hb
    split at h; · simp at h
    rename_i st hst
    split at h; · simp at h
    refine ⟨asks, bids, st, ha, hb, hst, ?_⟩
    obtain ⟨p, hp, hs⟩ := buildSettlement_eq.mp hst
    obtain ⟨_, _, _, _, _, _, _, _, hpf, hpl⟩ := settlement_unfold hs
    have hpf' : (st.fullyFilled, st.partialFilled) = populateFilled (Plan.filledOrders p) p.partialLeft := hpf
    have hids : (Plan.filledOrders p).map (·.order.id) = a ++ b := by
      rw [(filled_ids hp).1, List.map_append, getOrders_ids ha, getOrders_ids hb]
    obtain ⟨_, ho⟩ := close_orders h
    intro o hmem hin
    rw [hpl] at ho ⊢
    unfold populateFilled at hpf'
    cases hl : p.partialLeft with
    | none =>
      exfalso
      rw [hl] at hpf' ho
      simp only [Prod.mk.injEq] at hpf' ho
      rw [ho] at hmem
      have h2 := (List.mem_filter.mp hmem).2
      rw [hpf'.1, hids] at h2
      simp only [Bool.not_eq_true', List.contains_eq_mem, decide_eq_false_iff_not] at h2
      exact h2 hin
    | some l =>
      rw [hl] at hpf' ho
      simp only [Prod.mk.injEq] at hpf' ho
      rw [ho] at hmem
      obtain ⟨o', ho', rfl⟩ := List.mem_map.mp hmem
      have h2 := (List.mem_filter.mp ho').2
      rw [hpf'.1] at h2
      by_cases hid : o'.id = l.id
      · simp [hid]
      · exfalso
        simp only [hid, if_false] at hin
        simp only [Bool.not_eq_true', List.contains_eq_mem, decide_eq_false_iff_not] at h2
        apply h2
        rw [← hids] at hin
        obtain ⟨f, hf, hfid⟩ := List.mem_map.mp hin
        exact List.mem_map.mpr ⟨f, List.mem_filter.mpr ⟨hf, by simp [hfid, hid]⟩, hfid⟩

/-- **User fills settle each order once, and for good.**  An accepted `MsgFillBids` fetched pairwise
different stored orders (so every sum in `fillBids_deltas` counts each bid once) and afterwards none
of them is in the store. -/
theorem msgFillBids_once {s s' : KState} {m c seller : Addr} {ids : List Nat} {ta flat : Coins}
    (h : s.msgFillBids m c seller ids ta flat = .ok s') :
    s.fillBids m c seller ids ta flat = .ok s' ∧
    ∃ orders, s.getOrders false ids seller = .ok orders ∧ (orders.map (·.id)).Nodup ∧
      ∀ o ∈ s'.orders, o.id ∉ ids := by
  unfold KState.msgFillBids at h
  split at h; · simp at h
  rename_i hv
  refine ⟨h, ?_⟩
  unfold KState.fillBids at h
  split at h; · simp at h
  rename_i orders hor
  simp only at h
  split at h; · simp at h
  split at h; · simp at h
  refine ⟨orders, hor, by rw [getOrders_ids hor]; exact (validateOrderIDs_ok hv).2.2, ?_⟩
  obtain ⟨_, ho⟩ := close_orders h
  simp only [List.map_map] at ho
  intro o hmem hin
  rw [ho] at hmem
  have h2 := (List.mem_filter.mp hmem).2
  have e : orders.map ((fun f : FilledOrder => f.order.id) ∘ fun o => (⟨o, o.price, o.fees⟩ : FilledOrder)) = ids := by
    rw [← getOrders_ids hor]; apply List.map_congr_left; intro o _; rfl
  rw [e] at h2
  simp only [Bool.not_eq_true', List.contains_eq_mem, decide_eq_false_iff_not] at h2
  exact h2 hin

/-- The same for an accepted `MsgFillAsks` (cf. `fillAsks_deltas`). -/
theorem msgFillAsks_once {s s' : KState} {m c buyer : Addr} {ids : List Nat} {tp : Denom × Int} {fees : Coins}
    (h : s.msgFillAsks m c buyer ids tp fees = .ok s') :
    s.fillAsks m c buyer ids tp fees = .ok s' ∧
    ∃ orders, s.getOrders true ids buyer = .ok orders ∧ (orders.map (·.id)).Nodup ∧
      ∀ o ∈ s'.orders, o.id ∉ ids := by
  unfold KState.msgFillAsks at h
  split at h; · simp at h
  rename_i hv
  refine ⟨h, ?_⟩
  unfold KState.fillAsks at h
  split at h; · simp at h
  rename_i orders hor
  simp only at h
  split at h; · simp at h
  split at h; · simp at h
  rename_i ratioFees hrf
  refine ⟨orders, hor, by rw [getOrders_ids hor]; exact (validateOrderIDs_ok hv).2.2, ?_⟩
  obtain ⟨_, ho⟩ := close_orders h
  simp only [List.map_map] at ho
  intro o hmem hin
  rw [ho] at hmem
  have h2 := (List.mem_filter.mp hmem).2
  have e : (orders.zip ratioFees).map ((fun f : FilledOrder => f.order.id) ∘
      fun p => (⟨p.1, p.1.price, p.1.fees ++ p.2⟩ : FilledOrder)) = ids := by
    rw [← getOrders_ids hor, ← map_fst_zip_fun (·.id) orders ratioFees (mapM_ok_length _ _ _ hrf)]
    apply List.map_congr_left; intro o _; rfl
  rw [e] at h2
  simp only [Bool.not_eq_true', List.contains_eq_mem, decide_eq_false_iff_not] at h2
  exact h2 hin


/-! ## 6. Non-vacuity

`PvProofs/C01Examples.lean` (part of the same check) instantiates every hypothesis used above on one
concrete request / keeper state / history and evaluates the model on it by `decide`. -/

/-! ### sums beyond 256 bits (the overflow panic of `IndexedAddrAmts.add`) -/

/-- **buildSettlementChecked_ok**: whenever the real `BuildSettlement` returns a settlement (no
overflow panic while adding up one payer's fees), it is the settlement `buildSettlement` computes —
so every theorem above about an `.ok` result of `buildSettlement` is a theorem about it — and every
payer's fee total per denom fits 256 bits. -/
theorem buildSettlementChecked_ok {asks bids : List Order} {lookup : Denom → Except Err (Option Ratio)}
    {s : Settlement} (h : buildSettlementChecked asks bids lookup = .ok s) :
    buildSettlement asks bids lookup = .ok s ∧ s.feeInputs.sumsFit = true := by
  unfold buildSettlementChecked at h
  split at h
  · cases h
  · split at h
    · rename_i s' hs hfit
      cases h
      exact ⟨hs, hfit⟩
    · cases h

/-- **buildSettlementChecked_fails_iff**: the checked version refuses exactly when `buildSettlement`
refuses (with the same error) or some payer's fees do not fit (overflow); it never invents another
outcome. -/
theorem buildSettlementChecked_error {asks bids : List Order} {lookup : Denom → Except Err (Option Ratio)}
    {e : Err} (h : buildSettlementChecked asks bids lookup = .error e) :
    buildSettlement asks bids lookup = .error e ∨
    (e = .overflow ∧ ∃ s, buildSettlement asks bids lookup = .ok s ∧ s.feeInputs.sumsFit = false) := by
  unfold buildSettlementChecked at h
  split at h
  · rename_i e' he
    cases h
    exact Or.inl he
  · split at h
    · cases h
    · rename_i s' hs hfit
      cases h
      exact Or.inr ⟨rfl, s', hs, by simpa using hfit⟩

end PvProofs.C01
