/-
C01 — order settlement moves exactly the agreed assets, price and fees.

Property theorems only (helper lemmas live in `PvProofs/Lemmas/Settle*.lean`).  All statements are
for every list of asks and bids, every amount, every ratio; where the Go code can only be entered
with stored orders (positive amounts, `Order.Validate`) that is an explicit hypothesis.
-/
import PvProofs.Lemmas.SettleFilled
import Mathlib.Tactic.SplitIfs

namespace PvProofs.C01
open PvModel PvModel.Settle PvModel.Coins PvModel.Ledger PvProofs.Settle

/-! ## 1. `Order.Split` is exact -/

/-- **Split exactness.**  If `Order.Split` succeeds then the filled amount is strictly inside the
order, the order allows partial fills, the two halves are the order with only assets, price and
fees changed, and assets, price and every fee coin add up to the original *and* keep the original
`assets : price : fee` proportions exactly — for the filled half and for what is left. -/
theorem split_exact {o a b : Order} {f : Int} (h : o.split f = .ok (a, b)) :
    0 < f ∧ f < o.assets ∧ o.allowPartial = true ∧
    a.sameParty o ∧ b.sameParty o ∧
    a.assets = f ∧ a.assets + b.assets = o.assets ∧
    a.price + b.price = o.price ∧
    a.price * o.assets = o.price * a.assets ∧ b.price * o.assets = o.price * b.assets ∧
    ∀ d, amountOf a.fees d + amountOf b.fees d = amountOf o.fees d ∧
         amountOf a.fees d * o.assets = amountOf o.fees d * a.assets ∧
         amountOf b.fees d * o.assets = amountOf o.fees d * b.assets := by
  have F := split_facts h
  have ha := F.a_assets
  have hb := F.b_assets
  refine ⟨F.pos, F.lt, F.allowed, F.a_party, F.b_party, ha, by omega, F.price_sum, ?_, ?_, ?_⟩
  · rw [ha]; exact F.price_prop
  · rw [hb]
    have h1 := F.price_sum
    have h2 := F.price_prop
    have : b.price = o.price - a.price := by omega
    rw [this]; linarith [Int.sub_mul o.price a.price o.assets, Int.mul_sub o.price o.assets f]
  · intro d
    have h1 := F.fee_sum d
    have h2 := F.fee_prop d
    refine ⟨h1, by rw [ha]; exact h2, ?_⟩
    rw [hb]
    have : amountOf b.fees d = amountOf o.fees d - amountOf a.fees d := by omega
    rw [this]
    linarith [Int.sub_mul (amountOf o.fees d) (amountOf a.fees d) o.assets,
      Int.mul_sub (amountOf o.fees d) o.assets f]

/-- Both halves of a split keep a positive price (so the remainder is again a valid order). -/
theorem split_prices_positive {o a b : Order} {f : Int} (h : o.split f = .ok (a, b)) (hp : 0 < o.price) :
    0 < a.price ∧ 0 < b.price := by
  obtain ⟨hf, hlt, _, _, _, ha, hsum, _, h1, h2, _⟩ := split_exact h
  have hA : 0 < o.assets := by omega
  constructor
  · by_contra hn
    have : a.price * o.assets ≤ 0 := Int.mul_nonpos_of_nonpos_of_nonneg (by omega) (by omega)
    have : 0 < o.price * a.assets := Int.mul_pos hp (by omega)
    omega
  · by_contra hn
    have : b.price * o.assets ≤ 0 := Int.mul_nonpos_of_nonpos_of_nonneg (by omega) (by omega)
    have : 0 < o.price * b.assets := Int.mul_pos hp (by omega)
    omega

/-- The amounts on hold for the two halves add up to the hold of the original order
(`GetHoldAmount`: ask = assets + flat fee unless it is in the price denom; bid = price + fees). -/
theorem split_hold {o a b : Order} {f : Int} (h : o.split f = .ok (a, b)) (d : Denom) :
    amountOf a.holdAmount d + amountOf b.holdAmount d = amountOf o.holdAmount d := by
  obtain ⟨_, _, _, ha, hb, _, hsum, hps, _, _, hfee⟩ := split_exact h
  have hfd := (hfee d).1
  obtain ⟨_, e1, _, e3, e5, _⟩ := ha
  obtain ⟨_, e2, _, e4, e6, _⟩ := hb
  unfold Order.holdAmount
  rw [e1, e2, e3, e4, e5, e6]
  by_cases hk : o.isAsk = true
  · simp only [hk, if_true, amountOf_cons]
    have := amountOf_filter_denom a.fees (fun x => decide (x ≠ o.priceDenom)) d
    have := amountOf_filter_denom b.fees (fun x => decide (x ≠ o.priceDenom)) d
    have := amountOf_filter_denom o.fees (fun x => decide (x ≠ o.priceDenom)) d
    simp only [*]
    split_ifs <;> omega
  · simp only [hk, Bool.false_eq_true, if_false, amountOf_append, amountOf_cons, amountOf_nil]
    split_ifs <;> omega

/-- The checker the driver runs on the implementation's `Order.Split` output accepts everything the
model produces for a stored order: `splitViolation` is the conclusion of `split_exact`,
`split_prices_positive`, `split_hold`. -/
theorem split_checker_sound {o a b : Order} {f : Int} (h : o.split f = .ok (a, b)) (hp : 0 < o.price) :
    splitViolation o f a b = none := by
  obtain ⟨hf, hlt, hal, ha, hb, haf, hsum, hps, hpa, hpb, hfee⟩ := split_exact h
  obtain ⟨hpa', hpb'⟩ := split_prices_positive h hp
  have hbf : b.assets = o.assets - f := by omega
  have c6 : coinsEq (a.fees ++ b.fees) o.fees = true :=
    coinsEq_of_forall (fun d => by simp [(hfee d).1])
  have c7 : proportional a o f o.assets = true := by
    simp only [proportional, Bool.and_eq_true, decide_eq_true_eq, List.all_eq_true]
    exact ⟨⟨by rw [haf]; exact Int.mul_comm _ _, by rw [← haf]; exact hpa⟩,
      fun d _ => by rw [← haf]; exact (hfee d).2.1⟩
  have c8 : proportional b o (o.assets - f) o.assets = true := by
    simp only [proportional, Bool.and_eq_true, decide_eq_true_eq, List.all_eq_true]
    exact ⟨⟨by rw [hbf]; exact Int.mul_comm _ _, by rw [← hbf]; exact hpb⟩,
      fun d _ => by rw [← hbf]; exact (hfee d).2.2⟩
  have c10 : coinsEq (a.holdAmount ++ b.holdAmount) o.holdAmount = true :=
    coinsEq_of_forall (fun d => by simp [split_hold h d])
  unfold splitViolation
  rw [if_neg (not_not.mpr ⟨hf, hlt⟩), if_neg (not_not.mpr hal), if_neg (not_not.mpr ⟨ha, hb⟩),
    if_neg (not_not.mpr ⟨haf, hsum⟩), if_neg (not_not.mpr hps), if_neg (not_not.mpr c6),
    if_neg (not_not.mpr c7), if_neg (not_not.mpr c8), if_neg (not_not.mpr ⟨hpa', hpb'⟩),
    if_neg (not_not.mpr c10)]

/-! ## 2. `BuildSettlement`

`plan asks bids lookup = .ok p` is `BuildSettlement` up to and including `setFeesToPay`
(`p.asks`/`p.bids` are the orders after `splitPartial`, `p.trA`/`p.trP` the recorded asset and price
distributions); `p.settlement = .ok s` is `validateFulfillments`, `buildTransfers`, `populateFilled`.
`buildSettlement` is their composition (`buildSettlement_eq`). -/

theorem buildSettlement_eq {asks bids : List Order} {lookup : Denom → Except Err (Option Ratio)} {s : Settlement} :
    buildSettlement asks bids lookup = .ok s ↔ ∃ p, plan asks bids lookup = .ok p ∧ p.settlement = .ok s := by
  unfold buildSettlement
  constructor
  · intro h
    split at h
    · simp at h
    · rename_i p hp; exact ⟨p, hp, h⟩
  · rintro ⟨p, hp, hs⟩
    rw [hp]; exact hs

/-- **At most one order is partially filled; it is the last of its list, allows partial fills, and
is split exactly** (so `split_exact` applies to it).  Every other order goes through unchanged. -/
theorem at_most_one_partial {asks bids : List Order} {lookup : Denom → Except Err (Option Ratio)} {p : Plan}
    (hp : plan asks bids lookup = .ok p) :
    (p.asks = asks ∧ p.bids = bids ∧ p.partialLeft = none) ∨
    (∃ init o f u, asks = init ++ [o] ∧ p.asks = init ++ [f] ∧ p.bids = bids ∧ p.partialLeft = some u ∧
        o.allowPartial = true ∧ o.split (filledA p.trA init.length) = .ok (f, u)) ∨
    (∃ init o f u, bids = init ++ [o] ∧ p.bids = init ++ [f] ∧ p.asks = asks ∧ p.partialLeft = some u ∧
        o.allowPartial = true ∧ o.split (filledB p.trA init.length) = .ok (f, u)) := by
  obtain ⟨left1, ratio, _, _, h3, h4, _⟩ := plan_unfold hp
  rcases splitOrderFulfillments_spec h3 with ⟨a1, a2, _⟩ | ⟨init, o, f, u, a1, a2, _, a4, a5, _⟩
  · rcases splitOrderFulfillments_spec h4 with ⟨b1, b2, _⟩ | ⟨init, o, f, u, b1, b2, _, b4, b5, _⟩
    · left; exact ⟨a1, b1, by rw [b2, a2]⟩
    · right; right
      simp only [Nat.zero_add] at b5
      exact ⟨init, o, f, u, b1, b2, a1, b4, (split_exact b5).2.2.1, b5⟩
  · rcases splitOrderFulfillments_spec h4 with ⟨b1, b2, _⟩ | ⟨_, _, _, _, _, _, b3, _⟩
    · right; left
      simp only [Nat.zero_add] at a5
      exact ⟨init, o, f, u, a1, a2, b1, by rw [b2, a4], (split_exact a5).2.2.1, a5⟩
    · rw [a4] at b3; cases b3

/-- **Every order is filled exactly.**  If `BuildSettlement` succeeds, every ask (after the split of
a partial one) gives exactly its assets and is credited at least its price; every bid receives
exactly its assets and pays exactly its price.  (`filledA`/`filledB` are what the recorded
distributions move from/to the order; `account_deltas` ties them to the transfers.) -/
theorem orders_filled_exactly {p : Plan} {s : Settlement} (hs : p.settlement = .ok s) :
    (∀ k o, p.asks[k]? = some o → filledA p.trA k = o.assets ∧ o.price ≤ filledA p.trP k) ∧
    (∀ k o, p.bids[k]? = some o → filledB p.trA k = o.assets ∧ filledB p.trP k = o.price) := by
  obtain ⟨ta, tb, v1, v2, _⟩ := settlement_unfold hs
  constructor
  · intro k o hk
    obtain ⟨h1, _, h3⟩ := validateSide_ok v1 k o hk
    rw [Nat.zero_add] at h1 h3
    exact ⟨h3.symm, h1 rfl⟩
  · intro k o hk
    obtain ⟨_, h2, h3⟩ := validateSide_ok v2 k o hk
    rw [Nat.zero_add] at h2 h3
    exact ⟨h3.symm, (h2 rfl).symm⟩

/-- **Conservation through allocation.**  The assets all asks give are the assets all bids receive,
and the price all bids pay is the price all asks receive (hence `Σ ask received = Σ bid price`). -/
theorem conservation {asks bids : List Order} {lookup : Denom → Except Err (Option Ratio)} {p : Plan}
    {s : Settlement} (hp : plan asks bids lookup = .ok p) (hs : p.settlement = .ok s) :
    (p.asks.map (·.assets)).sum = (p.bids.map (·.assets)).sum ∧
    sumIdx (fun k _ => filledA p.trP k) 0 p.asks = (p.bids.map (·.price)).sum ∧
    (p.asks.map (·.price)).sum ≤ (p.bids.map (·.price)).sum := by
  obtain ⟨ad, pd, W⟩ := plan_wf hp
  obtain ⟨hA, hB⟩ := orders_filled_exactly hs
  have a1 : sumIdx (fun k _ => filledA p.trA k) 0 p.asks = sumTr (·.amt) p.trA :=
    sumIdx_credits (·.ask) p.trA p.asks _ (fun e he => by have := W.rA e he; omega)
  have a2 : sumIdx (fun k _ => filledB p.trA k) 0 p.bids = sumTr (·.amt) p.trA :=
    sumIdx_credits (·.bid) p.trA p.bids _ (fun e he => by have := W.rA e he; omega)
  have p1 : sumIdx (fun k _ => filledA p.trP k) 0 p.asks = sumTr (·.amt) p.trP :=
    sumIdx_credits (·.ask) p.trP p.asks _ (fun e he => by have := W.rP e he; omega)
  have p2 : sumIdx (fun k _ => filledB p.trP k) 0 p.bids = sumTr (·.amt) p.trP :=
    sumIdx_credits (·.bid) p.trP p.bids _ (fun e he => by have := W.rP e he; omega)
  have e1 : sumIdx (fun k _ => filledA p.trA k) 0 p.asks = (p.asks.map (·.assets)).sum :=
    (sumIdx_congr_idx (fun k o hk => by simpa using (hA k o hk).1)).trans (sumIdx_map (·.assets) 0 p.asks)
  have e2 : sumIdx (fun k _ => filledB p.trA k) 0 p.bids = (p.bids.map (·.assets)).sum :=
    (sumIdx_congr_idx (fun k o hk => by simpa using (hB k o hk).1)).trans (sumIdx_map (·.assets) 0 p.bids)
  have e3 : sumIdx (fun k _ => filledB p.trP k) 0 p.bids = (p.bids.map (·.price)).sum :=
    (sumIdx_congr_idx (fun k o hk => by simpa using (hB k o hk).2)).trans (sumIdx_map (·.price) 0 p.bids)
  have e4 : (p.asks.map (·.price)).sum ≤ sumIdx (fun k _ => filledA p.trP k) 0 p.asks := by
    rw [← sumIdx_map (·.price) 0 p.asks]
    exact sumIdx_le (fun k o hk => by simpa using (hA k o hk).2)
  refine ⟨by omega, by omega, by omega⟩

/-- **Every transfer is balanced**: per denom, the inputs' total equals the outputs' total (so the
bank's `SendCoins` / `InputOutputCoinsProv` never see an unbalanced request). -/
theorem transfers_balanced {p : Plan} {s : Settlement} (hs : p.settlement = .ok s) :
    ∀ t ∈ s.transfers, ∀ d, amountOf t.inputs.total d = amountOf t.outputs.total d := by
  obtain ⟨ta, tb, _, _, ra, rb, ht, _⟩ := settlement_unfold hs
  intro t ht' d
  rw [ht] at ht'
  rcases List.mem_append.mp ht' with h | h
  · obtain ⟨k, o, _, hg⟩ := recordSide_forall ra t h
    exact assetTransfer_balanced hg d
  · obtain ⟨k, o, _, hg⟩ := recordSide_forall rb t h
    exact priceTransfer_balanced hg d

/-- **Account-level deltas of the transfers.**  For every account and denom — one account may own
several orders, on both sides — the net effect of all transfers of a successful `BuildSettlement`
is exactly: for each of its asks `− assets + price received`, for each of its bids
`+ assets − price` (`expectedDelta`).  In particular nobody else is touched by the transfers. -/
theorem account_deltas {asks bids : List Order} {lookup : Denom → Except Err (Option Ratio)} {p : Plan}
    {s : Settlement} (hp : plan asks bids lookup = .ok p) (hs : p.settlement = .ok s) (x : Addr) (d : Denom) :
    transfersNet s.transfers x d = expectedDelta (Plan.filledOrders p) x d := by
  obtain ⟨ad, pd, W⟩ := plan_wf hp
  obtain ⟨ta, tb, v1, v2, ra, rb, ht, _, _, _⟩ := settlement_unfold hs
  have VA := validateSide_ok v1
  have VB := validateSide_ok v2
  -- transfers: assets from the asks, price from the bids
  have hta := side_deltas (t := p.trA) (takers := p.bids) (·.ask) (·.bid) ad x d ra
    (by
      intro k o tr ho hg
      rw [bal_assetTransfer hg, (W.uA o ho).1]; rfl)
    (fun e he => by have := W.rA e he; omega) (fun e he => by have := W.rA e he; omega)
  have htb := side_deltas (t := p.trP) (takers := p.asks) (·.bid) (·.ask) pd x d rb
    (by
      intro k o tr ho hg
      rw [bal_priceTransfer hg, (W.uB o ho).2.1]; rfl)
    (fun e he => by have := W.rP e he; omega) (fun e he => by have := W.rP e he; omega)
  unfold transfersNet
  rw [ht, List.flatMap_append, bal_append, hta, htb]
  -- expected deltas as index sums
  unfold Plan.filledOrders
  rw [expectedDelta_append, expectedDelta_zipFilled _ _ _ _ W.lenAF, expectedDelta_zipFilled _ _ _ _ W.lenBF]
  have eA : sumIdx (fun k o => if o.owner = x then (FilledOrder.mk o (filledA p.trP k) []).delta d else 0) 0 p.asks
      = sumIdx (fun k o => (if o.owner = x ∧ pd = d then sumTr (·.amt) (p.trP.filter (fun e => e.ask = k)) else 0)
          + - (if o.owner = x ∧ ad = d then sumTr (·.amt) (p.trA.filter (fun e => e.ask = k)) else 0)) 0 p.asks := by
    apply sumIdx_congr_idx
    intro k o hk
    have ho := W.uA o (List.mem_of_getElem? hk)
    obtain ⟨_, _, h3⟩ := VA k o hk
    simp only [Nat.zero_add] at h3 ⊢
    simp only [FilledOrder.delta, ho.1, ho.2.1, ho.2.2, if_true, h3, filledA_eq]
    by_cases c1 : o.owner = x <;> by_cases c2 : pd = d <;> by_cases c3 : ad = d <;> simp [c1, c2, c3] <;> omega
  have eB : sumIdx (fun k o => if o.owner = x then (FilledOrder.mk o (filledB p.trP k) []).delta d else 0) 0 p.bids
      = sumIdx (fun k o => (if o.owner = x ∧ ad = d then sumTr (·.amt) (p.trA.filter (fun e => e.bid = k)) else 0)
          + - (if o.owner = x ∧ pd = d then sumTr (·.amt) (p.trP.filter (fun e => e.bid = k)) else 0)) 0 p.bids := by
    apply sumIdx_congr_idx
    intro k o hk
    have ho := W.uB o (List.mem_of_getElem? hk)
    obtain ⟨_, _, h3⟩ := VB k o hk
    simp only [Nat.zero_add] at h3 ⊢
    simp only [FilledOrder.delta, ho.1, ho.2.1, ho.2.2, Bool.false_eq_true, if_false, h3, filledB_eq]
    by_cases c1 : o.owner = x <;> by_cases c2 : pd = d <;> by_cases c3 : ad = d <;> simp [c1, c2, c3] <;> omega
  rw [eA, eB, sumIdx_add, sumIdx_add, sumIdx_neg, sumIdx_neg]
  omega


/-- **Fee inputs.**  Per account and denom, the fee inputs are exactly the fees of the account's
orders. -/
theorem fee_inputs_exact {asks bids : List Order} {lookup : Denom → Except Err (Option Ratio)} {p : Plan}
    {s : Settlement} (hp : plan asks bids lookup = .ok p) (hs : p.settlement = .ok s) (x : Addr) (d : Denom) :
    s.feeInputs.amountFor x d = expectedFees (Plan.filledOrders p) x d := by
  obtain ⟨ad, pd, W⟩ := plan_wf hp
  obtain ⟨ta, tb, _, _, _, _, _, hf, _⟩ := settlement_unfold hs
  rw [amountFor_eq_bal, hf, expectedFees_zipFilled p.bids (filledB p.trP) p.bidFees 0 W.lenBF,
    expectedFees_zipFilled p.asks (filledA p.trP) p.askFees 0 W.lenAF]
  simp [Plan.filledOrders, expectedFees_append]

/-- **Fees.**  A bid pays exactly its own settlement fees; an ask pays its flat fee plus — when the
market has a seller ratio `price : fee` for the price denom — `⌈received · fee / price⌉` in the
ratio's fee denom, computed on what it actually receives. -/
theorem fee_formula {asks bids : List Order} {lookup : Denom → Except Err (Option Ratio)} {p : Plan}
    (hp : plan asks bids lookup = .ok p) :
    p.bidFees = p.bids.map (·.fees) ∧
    ∃ ratio, lookup (p.asks.headD default).priceDenom = .ok ratio ∧
      ∀ k o, p.asks[k]? = some o →
        match ratio with
        | none => p.askFees[k]? = some o.fees
        | some r => ∃ amt, p.askFees[k]? = some (o.fees ++ [(r.feeDenom, amt)]) ∧
            (0 ≤ filledA p.trP k → 0 < r.priceAmt → 0 ≤ r.feeAmt →
              Fees.IsCeilDiv (filledA p.trP k * r.feeAmt) r.priceAmt amt) := by
  obtain ⟨left1, ratio, _, _, _, _, _, h6, h7, h8⟩ := plan_unfold hp
  refine ⟨h8, ratio, h6, ?_⟩
  intro k o hk
  have := askFeesToPay_spec h7 k o hk
  cases ratio with
  | none => simpa using this
  | some r =>
    simp only [Nat.zero_add] at this
    obtain ⟨amt, h1, h2⟩ := this
    exact ⟨amt, h2, fun ha hrp hrf => (ratioFee_is_ceil h1 ha hrp hrf).2.2⟩

/-- **`populateFilled` only reorders.**  With distinct order ids, `FullyFilledOrders` followed by
`PartialOrderFilled` are exactly the orders of the plan; so the account deltas and fee totals can be
read off the returned `Settlement` alone. -/
theorem filled_is_reordering {p : Plan} {s : Settlement} (hs : p.settlement = .ok s)
    (hn : ((Plan.filledOrders p).map (·.order.id)).Nodup) (x : Addr) (d : Denom) :
    expectedDelta s.filled x d = expectedDelta (Plan.filledOrders p) x d ∧
    expectedFees s.filled x d = expectedFees (Plan.filledOrders p) x d := by
  obtain ⟨ta, tb, _, _, _, _, _, _, hpf, _⟩ := settlement_unfold hs
  exact ⟨populateFilled_sum _ _ _ _ hpf hn _, populateFilled_sum _ _ _ _ hpf hn _⟩

end PvProofs.C01
