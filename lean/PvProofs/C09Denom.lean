/-
C09 — the marker module's unrestricted-denom test on the denom of a scope token.

`PvModel.DenomRegex.unrestrictedDenomOk` is the hand-written reading of
`^[a-zA-Z][a-zA-Z0-9\-\.]{2,83}$` (`Keeper.ValidateUnrestictedDenom`, x/marker/keeper/params.go:53,
with the default expression of x/marker/types/params.go:16).  Proved here, for ALL strings:
what an accepted denom looks like (length 3…84, every character in the class, hence no `/`), that
the denom of a scope token (`nft/` + anything) is refused, and that it is the END anchor that
refuses it: the same test without the `$` accepts every scope denom.  `PvProofs.C09` derives
`marker_add_on_scope_denom_never_accepted` from `scopeDenom_refused`; the two source texts are
pinned in `PvProofs.C09Facts`.
-/
import PvModel.DenomRegex

namespace PvProofs.C09Denom
open PvModel.DenomRegex

theorem slash_not_in_class : isTail '/' = false := by decide

theorem isLetter_isTail {c : Char} (h : isLetter c = true) : isTail c = true := by
  simp [isTail, h]

/-- what the anchored match accepts, as a proposition -/
theorem matchAnchored_iff (l : List Char) :
    matchAnchored l = true ↔
      ∃ c rest, l = c :: rest ∧ isLetter c = true ∧ 2 ≤ rest.length ∧ rest.length ≤ 83 ∧
        ∀ x ∈ rest, isTail x = true := by
  cases l with
  | nil => simp [matchAnchored]
  | cons c rest =>
    simp only [matchAnchored, tailMin, tailMax, Bool.and_eq_true, List.all_eq_true]
    constructor
    · rintro ⟨⟨⟨h1, h2⟩, h3⟩, h4⟩
      exact ⟨c, rest, rfl, h1, of_decide_eq_true h2, of_decide_eq_true h3, h4⟩
    · rintro ⟨c', rest', heq, h1, h2, h3, h4⟩
      cases heq
      exact ⟨⟨⟨h1, decide_eq_true h2⟩, decide_eq_true h3⟩, h4⟩

/-- **unrestrictedDenomOk_iff** — the specification of the model's test: the denom is one letter
followed by 2 to 83 characters of the class `[a-zA-Z0-9\-\.]`, and nothing else. -/
theorem unrestrictedDenomOk_iff (d : String) :
    unrestrictedDenomOk d = true ↔
      ∃ c rest, d.toList = c :: rest ∧ isLetter c = true ∧ 2 ≤ rest.length ∧ rest.length ≤ 83 ∧
        ∀ x ∈ rest, isTail x = true :=
  matchAnchored_iff d.toList

/-- **unrestrictedDenomOk_shape** — an accepted denom has 3 to 84 characters and EVERY one of them
is in the class `[a-zA-Z0-9\-\.]` (the first one a letter). -/
theorem unrestrictedDenomOk_shape {d : String} (h : unrestrictedDenomOk d = true) :
    3 ≤ d.length ∧ d.length ≤ 84 ∧ (∀ c ∈ d.toList, isTail c = true) ∧
      (∃ c rest, d.toList = c :: rest ∧ isLetter c = true) := by
  obtain ⟨c, rest, heq, h1, h2, h3, h4⟩ := (unrestrictedDenomOk_iff d).1 h
  have hlen : d.length = rest.length + 1 := by
    rw [← String.length_toList, heq, List.length_cons]
  refine ⟨by omega, by omega, ?_, c, rest, heq, h1⟩
  intro x hx
  rw [heq] at hx
  rcases List.mem_cons.1 hx with rfl | hx
  · exact isLetter_isTail h1
  · exact h4 x hx

/-- **unrestrictedDenomOk_no_slash** — an accepted denom contains no `/`. -/
theorem unrestrictedDenomOk_no_slash {d : String} (h : unrestrictedDenomOk d = true) :
    '/' ∉ d.toList := by
  intro hm
  have := (unrestrictedDenomOk_shape h).2.2.1 '/' hm
  rw [slash_not_in_class] at this
  exact Bool.noConfusion this

/-- a text with a `/` anywhere in it is refused -/
theorem refused_of_slash {d : String} (h : '/' ∈ d.toList) : unrestrictedDenomOk d = false := by
  cases hd : unrestrictedDenomOk d with
  | false => rfl
  | true => exact absurd h (unrestrictedDenomOk_no_slash hd)

/-- **scopeDenom_refused** — the denom of a scope token, `nft/` followed by ANY text, fails the
unrestricted-denom test. -/
theorem scopeDenom_refused (bech : String) : unrestrictedDenomOk (scopeDenom bech) = false := by
  apply refused_of_slash
  have : "nft/".toList = ['n', 'f', 't', '/'] := by decide
  simp [scopeDenom, String.toList_append, this]

/-- **end_anchor_refuses_continuation** — whatever stands before and after it, a `/` makes the
WHOLE text fail: the match is not allowed to stop before the end of the denom. -/
theorem end_anchor_refuses_continuation (p q : String) :
    unrestrictedDenomOk (p ++ "/" ++ q) = false := by
  apply refused_of_slash
  have : "/".toList = ['/'] := by decide
  simp [String.toList_append, this]

/-- what the start-anchored match accepts -/
theorem matchPrefix_append {l : List Char} (h : matchAnchored l = true) (m : List Char) :
    matchPrefix (l ++ m) = true := by
  obtain ⟨c, rest, rfl, h1, h2, _, h4⟩ := (matchAnchored_iff l).1 h
  match rest, h2, h4 with
  | t1 :: t2 :: r, _, h4 =>
    simp [matchPrefix, h1, h4 t1 (by simp), h4 t2 (by simp)]

/-- **end_anchor_is_what_refuses** — the anchoring made visible: a text that BEGINS with an accepted
denom `p` and goes on with `/…` is refused by the test (`^…$`), and accepted by the same test
without the end anchor (`^(?:…)`, which is satisfied by the prefix `p`).  So `$` is the part of
`ValidateUnrestictedDenom`'s format string that keeps `nft/scope1…` out. -/
theorem end_anchor_is_what_refuses {p : String} (hp : unrestrictedDenomOk p = true) (q : String) :
    unrestrictedDenomOk (p ++ "/" ++ q) = false ∧ unrestrictedDenomPrefixOk (p ++ "/" ++ q) = true := by
  refine ⟨end_anchor_refuses_continuation p q, ?_⟩
  simp only [unrestrictedDenomPrefixOk, String.toList_append, List.append_assoc]
  exact matchPrefix_append hp _

/-- a concrete instance of the hypothesis: `p = "nft"` is an accepted denom, and
`"nft" ++ "/" ++ q` is the denom of a scope token -/
example : unrestrictedDenomOk "nft" = true := by decide
example (q : String) : "nft" ++ "/" ++ q = scopeDenom q := by
  simp [scopeDenom]

/-- **unanchored_accepts_scope_denom** — without the end anchor EVERY scope denom passes (its
first three characters `nft` satisfy the expression): the refusal in `scopeDenom_refused` is owed
to the `$` alone. -/
theorem unanchored_accepts_scope_denom (bech : String) :
    unrestrictedDenomPrefixOk (scopeDenom bech) = true := by
  have : "nft/".toList = ['n', 'f', 't', '/'] := by decide
  simp only [unrestrictedDenomPrefixOk, scopeDenom, String.toList_append, this]
  show matchPrefix ('n' :: 'f' :: 't' :: ('/' :: bech.toList)) = true
  simp only [matchPrefix]
  decide

/-! ### Boundary cases (evaluated by the kernel) -/

example : unrestrictedDenomOk "nhash" = true := by decide
example : unrestrictedDenomOk "ab" = false := by decide            -- too short: {2,83} needs 3 characters in all
example : unrestrictedDenomOk "abc" = true := by decide
example : unrestrictedDenomOk "1abc" = false := by decide          -- the first character must be a letter
example : unrestrictedDenomOk "a-b.c" = true := by decide
example : unrestrictedDenomOk "a_bc" = false := by decide
example : unrestrictedDenomOk "nft/scope1qx" = false := by decide
example : unrestrictedDenomOk "nhash\n" = false := by decide       -- `$` is the end of the text, not of a line
example : unrestrictedDenomOk "" = false := by decide
/-- 84 characters: the longest accepted denom -/
def denom84 : String := "abcdefghij0bcdefghij0bcdefghij0bcdefghij0bcdefghij0bcdefghij0bcdefghij0bcdefghij0-.Z"
/-- 85 characters -/
def denom85 : String := "abcdefghij0bcdefghij0bcdefghij0bcdefghij0bcdefghij0bcdefghij0bcdefghij0bcdefghij0-.Z9"
example : denom84.length = 84 := by decide
example : denom85.length = 85 := by decide
example : unrestrictedDenomOk denom84 = true := by decide
example : unrestrictedDenomOk denom85 = false := by decide

end PvProofs.C09Denom
