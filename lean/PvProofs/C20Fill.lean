/-
C20 — user fills after the market's gate, and required attributes without name hypotheses.

Property theorems (namespace `PvProofs.C20`, continuing `PvProofs/C20.lean`):

* `isReqAttrMatch_iff_doc_all` / `acctHasReqAttrs_iff_doc`: the code's matcher IS the documented
  match (`DocMatch`, on dot-separated segments) for **all** strings — no validity hypothesis on
  the required attribute or on the account's attribute name.  The hypothesis `PairsOk` of the
  admission theorems of `PvProofs/C20.lean` is therefore not needed: `pairsOk_not_needed`
  restates each of them without it.
* `fillBids_admits_iff` / `fillAsks_admits_iff` (+ `_history_iff` over every `History`):
  `MsgFillBids` / `MsgFillAsks` are accepted ⇔ the message is valid, the market's gate is passed
  (exists, accepting orders, user settlement allowed, the filler's required attributes, creation
  fee and settlement fee options), every id names a resting order of the right side and market
  that is not the filler's own, the stated total equals the sum of the named orders, the market
  can name the seller ratio fee, and the filler has the funds.
-/
import PvProofs.C20

namespace PvProofs.C20
open PvModel PvModel.Admit PvModel.Fees PvProofs PvProofs.AdmitL

/-! ### The matcher is the documented match for all strings -/

/-- **Wildcard rule, no hypotheses**: `*.b` is matched by exactly the strings whose segments are
one or more extra leading segments followed by the segments of `b` — for every `b` and every
string (empty segments, empty strings included). -/
theorem reqAttr_wildcard_all (b al : List Char) :
    isReqAttrMatchL ('*' :: '.' :: b) al = true ↔ WildcardMatch (splitDots b) (splitDots al) := by
  unfold isReqAttrMatchL WildcardMatch
  by_cases ha : al = []
  · subst ha
    simp only [List.isEmpty_cons, List.isEmpty_nil, Bool.or_true, if_true, Bool.false_eq_true,
      false_iff, not_exists, not_and]
    intro extra hne he
    have h1 := congrArg List.length he
    have h2 : 0 < extra.length := List.length_pos_iff.2 hne
    have h3 : 0 < (splitDots b).length := List.length_pos_iff.2 (splitDots_ne_nil b)
    simp only [splitDots, List.length_cons, List.length_nil, List.length_append] at h1
    omega
  · have hae : al.isEmpty = false := by cases al <;> simp_all
    simp only [List.isEmpty_cons, hae, Bool.or_self, Bool.false_eq_true, if_false, List.isPrefixOf,
      beq_self_eq_true, Bool.and_self, if_true, List.drop_succ_cons, List.drop_zero,
      List.isSuffixOf_iff_suffix]
    constructor
    · rintro ⟨t, rfl⟩
      exact ⟨splitDots t, splitDots_ne_nil t, splitDots_append_dot t b⟩
    · rintro ⟨extra, hne, he⟩
      refine ⟨joinDots extra, ?_⟩
      have := joinDots_append hne (splitDots_ne_nil b)
      rw [← he, joinDots_splitDots, joinDots_splitDots] at this
      exact this.symm

/-- **The code's matcher is the documented match, for all strings.** -/
theorem isReqAttrMatch_iff_doc_all (r a : String) : isReqAttrMatch r a = true ↔ DocMatch r a := by
  unfold isReqAttrMatch DocMatch
  by_cases hw : isWild r = true
  · simp only [hw, if_true]
    unfold isWild at hw
    obtain ⟨t, ht⟩ := List.isPrefixOf_iff_prefix.1 hw
    rw [← ht]
    simp only [List.cons_append, List.nil_append, List.drop_succ_cons, List.drop_zero]
    exact reqAttr_wildcard_all t a.toList
  · have hw' : isWild r = false := Bool.eq_false_iff.2 hw
    simp only [hw', Bool.false_eq_true, if_false]
    unfold isWild at hw'
    rw [reqAttr_exact hw', String.toList_inj]
    constructor
    · rintro ⟨h1, h2⟩
      exact ⟨fun e => h1 (by rw [e]; rfl), h2⟩
    · rintro ⟨h1, h2⟩
      exact ⟨fun e => h1 (String.toList_inj.1 (by rw [e]; rfl)), h2⟩

/-- **The account may act ⇔ every required attribute has a documented match** — for all lists
of strings (no `PairsOk`). -/
theorem acctHasReqAttrs_iff_doc (reqs accs : List String) :
    acctHasReqAttrs reqs accs = true ↔ AttrsOk reqs accs := by
  rw [acctHasReqAttrs_iff_matched]
  unfold AttrsMatched AttrsOk
  constructor
  · intro h r hr
    obtain ⟨a, ha, hm⟩ := h r hr
    exact ⟨a, ha, (isReqAttrMatch_iff_doc_all r a).1 hm⟩
  · intro h r hr
    obtain ⟨a, ha, hm⟩ := h r hr
    exact ⟨a, ha, (isReqAttrMatch_iff_doc_all r a).2 hm⟩

/-- `FindUnmatchedReqAttrs` returns the documented list, for all strings. -/
theorem findUnmatched_eq_doc_all (reqs accs : List String) :
    findUnmatchedReqAttrs reqs accs = docUnmatched reqs accs := by
  unfold findUnmatchedReqAttrs docUnmatched
  apply List.filter_congr
  intro r _
  have : hasReqAttrMatch r accs = true ↔ ∃ a ∈ accs, DocMatch r a := by
    unfold hasReqAttrMatch
    rw [List.any_eq_true]
    constructor
    · rintro ⟨a, ha, hm⟩; exact ⟨a, ha, (isReqAttrMatch_iff_doc_all r a).1 hm⟩
    · rintro ⟨a, ha, hm⟩; exact ⟨a, ha, (isReqAttrMatch_iff_doc_all r a).2 hm⟩
  by_cases h : hasReqAttrMatch r accs = true
  · simp [h, this.1 h]
  · have h' : hasReqAttrMatch r accs = false := Bool.eq_false_iff.2 h
    simp only [h', Bool.not_false, true_eq_decide_iff]
    exact fun x => h (this.2 x)

/-- The guard `PairsOk` says nothing the matcher needs: the matcher agrees with the documented
match on pairs outside it as well (`*..a` against `x..a`, empty names, …). -/
theorem pairsOk_not_needed (reqs accs : List String) :
    (acctHasReqAttrs reqs accs = true ↔ AttrsOk reqs accs) ∧
    findUnmatchedReqAttrs reqs accs = docUnmatched reqs accs :=
  ⟨acctHasReqAttrs_iff_doc reqs accs, findUnmatched_eq_doc_all reqs accs⟩

example : ¬ PairsOk ["*..a"] ["x..a"] := by decide
example : acctHasReqAttrs ["*..a"] ["x..a"] = true ∧ AttrsOk ["*..a"] ["x..a"] := by decide

/-! ### The named orders -/

theorem getOrder_eq_orderOf (book : List Order) (id : Nat) : getOrder book id = orderOf book id := by
  induction book with
  | nil => rfl
  | cons o rest ih =>
    unfold getOrder orderOf
    by_cases h : o.id = id
    · simp [h]
    · simp only [h, if_false, List.find?_cons, decide_false]
      exact ih

/-- `getBidOrders` / `getAskOrders` return the named orders exactly when every id names an order
the filler may fill. -/
theorem getOrders_eq (book : List Order) (marketId : Nat) (wantBid : Bool) (filler : String) :
    ∀ ids : List Nat, getOrders book marketId wantBid filler ids =
      if ∀ id ∈ ids, Fillable book marketId wantBid filler id then some (namedOrders book ids) else none
  | [] => by simp [getOrders, namedOrders]
  | id :: rest => by
    have ih := getOrders_eq book marketId wantBid filler rest
    unfold getOrders
    rw [getOrder_eq_orderOf, ih]
    cases ho : orderOf book id with
    | none =>
      have : ¬ Fillable book marketId wantBid filler id := by
        rintro ⟨o, h, _⟩; rw [ho] at h; cases h
      simp [this]
    | some o =>
      have hhead : Fillable book marketId wantBid filler id ↔
          (o.isBid = wantBid ∧ o.marketId = marketId ∧ o.owner ≠ filler) := by
        unfold Fillable; rw [ho]; simp
      have hnamed : namedOrders book (id :: rest) = o :: namedOrders book rest := by
        simp [namedOrders, List.filterMap_cons, ho]
      rw [hnamed]
      by_cases h1 : o.isBid = wantBid
      swap
      · have : ¬ Fillable book marketId wantBid filler id := fun h => h1 (hhead.1 h).1
        simp [h1, this]
      by_cases h2 : o.marketId = marketId
      swap
      · have : ¬ Fillable book marketId wantBid filler id := fun h => h2 (hhead.1 h).2.1
        simp [h1, h2, this]
      by_cases h3 : o.owner = filler
      · have : ¬ Fillable book marketId wantBid filler id := fun h => (hhead.1 h).2.2 h3
        simp [h1, h2, h3, this]
      have hF : Fillable book marketId wantBid filler id := hhead.2 ⟨h1, h2, h3⟩
      by_cases hr : ∀ id ∈ rest, Fillable book marketId wantBid filler id
      · rw [if_pos hr, if_pos (fun x hx => by
          rcases List.mem_cons.1 hx with rfl | hx
          · exact hF
          · exact hr x hx)]
        simp [h1, h2, h3]
      · rw [if_neg hr, if_neg (fun h => hr (fun x hx => h x (List.mem_cons_of_mem _ hx)))]
        simp [h1, h2, h3]

theorem coinsEqv_iff (a b : Coins) : coinsEqv a b = true ↔ TotalsEq a b := by
  unfold coinsEqv TotalsEq
  simp only [List.all_eq_true, decide_eq_true_eq]

/-! ### The seller ratio fee -/

/-- `calculateSellerSettlementRatioFee` under the chain's guards: refused exactly when the market
defines seller ratios but none for the denom; otherwise the ceiling fee of the ratio (or none). -/
theorem calcSellerRatioFee_eq {rs : List Ratio} {price : Coin} (hw : RatiosWf rs)
    (hp : 0 ≤ price.2) (hfit : RatiosFit rs price) :
    calcSellerRatioFee rs price =
      if SellerRatioAvail rs price.1 then
        .ok ((getFeeRatio rs price.1 price.1).map fun r => (price.1, ratioFeeSpec r price.2))
      else .error .price := by
  unfold calcSellerRatioFee getSellerSettlementRatio SellerRatioAvail
  cases hg : getFeeRatio rs price.1 price.1 with
  | none =>
    have hnone := (getFeeRatio_none_iff rs price.1 price.1).1 hg
    cases rs with
    | nil => simp [hasFeeRatio]
    | cons x rest =>
      have hne : ¬ (x :: rest = [] ∨ ∃ r ∈ x :: rest, r.pd = price.1 ∧ r.fd = price.1) := by
        rintro (h | ⟨r, hr, h⟩)
        · cases h
        · exact hnone r hr h
      simp only [hne, if_false, hasFeeRatio, List.isEmpty_cons, Bool.not_false, if_true]
  | some r =>
    obtain ⟨hmem, hpd, hfd⟩ := getFeeRatio_mem hg
    have havail : rs = [] ∨ ∃ r ∈ rs, r.pd = price.1 ∧ r.fd = price.1 := Or.inr ⟨r, hmem, hpd, hfd⟩
    obtain ⟨hpa, hfa⟩ := hw.2 r hmem
    have := applyToLoosely_eq_spec hpd hp hpa hfa (hfit r hmem hpd)
    simp only [this, havail, if_true, Option.map_some]

theorem sellerRatioFees_eq {rs : List Ratio} {prices : Coins} (hw : RatiosWf rs) :
    ∀ ds : List Denom, (∀ d ∈ ds, 0 ≤ Coins.amountOf prices d) →
      (∀ d ∈ ds, RatiosFit rs (d, Coins.amountOf prices d)) →
      sellerRatioFees rs prices ds =
        if ∀ d ∈ ds, SellerRatioAvail rs d then .ok (ratioFeesDue rs prices ds) else .error .price
  | [], _, _ => by simp [sellerRatioFees, ratioFeesDue]
  | d :: rest, hp, hf => by
    have ih := sellerRatioFees_eq hw rest (fun x hx => hp x (List.mem_cons_of_mem _ hx))
      (fun x hx => hf x (List.mem_cons_of_mem _ hx))
    have hc := calcSellerRatioFee_eq (price := (d, Coins.amountOf prices d)) hw
      (hp d List.mem_cons_self) (hf d List.mem_cons_self)
    unfold sellerRatioFees
    rw [hc, ih]
    simp only [List.mem_cons, forall_eq_or_imp, ratioFeesDue]
    by_cases h1 : SellerRatioAvail rs d
    swap
    · simp [h1]
    by_cases h2 : ∀ x ∈ rest, SellerRatioAvail rs x
    swap
    · simp [h1, h2]
    rw [if_pos h1, if_pos h2, if_pos ⟨h1, h2⟩]
    cases getFeeRatio rs d d <;> rfl

/-! ### Fill bids -/

theorem fillBidsFunds_iff (bal ta tp sf : Coins) (cfee : Option Coin) :
    fillBidsFunds bal ta tp sf cfee = true ↔ FillBidsFundsOk bal ta tp sf cfee := by
  unfold fillBidsFunds FillBidsFundsOk covers
  simp only [Bool.and_eq_true, and_assoc]

theorem fillAsksFunds_iff (bal ta : Coins) (tp : Coin) (fees : Coins) (cfee : Option Coin) :
    fillAsksFunds bal ta tp fees cfee = true ↔ FillAsksFundsOk bal ta tp fees cfee := by
  unfold fillAsksFunds FillAsksFundsOk covers
  simp only [Bool.and_eq_true, and_assoc]

theorem ite_ok_iff {b : Bool} {P : Prop} {e : FillRej} (h : b = true ↔ P) :
    ((if b = true then (Except.ok () : Except FillRej Unit) else .error e) = .ok () ↔ P) := by
  cases b <;> simp [← h]

theorem ite_err_ok_iff {b c : Bool} {P Q : Prop} {e1 e2 : FillRej} (hb : b = false ↔ P)
    (hc : c = true ↔ Q) :
    ((if b = true then (Except.error e1 : Except FillRej Unit)
      else if c = true then .ok () else .error e2) = .ok () ↔ P ∧ Q) := by
  cases b <;> cases c <;> simp [← hb, ← hc]

/-- The gate of a fill of bids without the name hypothesis. -/
theorem fillBidsGate_iff_doc {mk : Option Market} {attrs : List String} {cfee sflat : Option Coin}
    (hw : ∀ mkt, mk = some mkt → (mkt.createAskFlat.map (·.1)).Nodup ∧ (mkt.sellerFlat.map (·.1)).Nodup) :
    fillBidsGate mk attrs cfee sflat = .ok () ↔
      fillBidsValid cfee sflat = true ∧ FillBidsAdmissible mk attrs cfee sflat := by
  unfold fillBidsGate FillBidsAdmissible validateAcceptingOrdersAndCanUserSettle
    validateMarketIsAcceptingOrders
  by_cases hv : fillBidsValid cfee sflat = true
  swap
  · simp [hv]
  simp only [hv, Bool.not_true, Bool.false_eq_true, if_false, true_and]
  cases mk with
  | none => simp
  | some mkt =>
    obtain ⟨hn1, hn2⟩ := hw mkt rfl
    simp only [Option.some.injEq, exists_eq_left']
    rw [← flatFee_accepts_iff_spec hn1 cfee, ← flatFee_accepts_iff_spec hn2 sflat,
      ← acctHasReqAttrs_iff_doc]
    unfold validateCreateAskFees
    rcases flatFee_refusal_is_fee mkt.createAskFlat cfee with a | a <;>
    rcases flatFee_refusal_is_fee mkt.sellerFlat sflat with b | b <;>
    cases hacc : mkt.acceptingOrders <;> cases hus : mkt.userSettle <;>
    cases hat : acctHasReqAttrs mkt.reqAsk attrs <;> simp [a, b, hacc, hus, hat]

/-- The gate of a fill of asks without the name hypothesis. -/
theorem fillAsksGate_iff_doc {mk : Option Market} {attrs : List String} {cfee : Option Coin}
    {tp : Coin} {fees : List Coin}
    (hw : ∀ mkt, mk = some mkt → MarketBidWf mkt tp) :
    fillAsksGate mk attrs cfee tp fees = .ok () ↔
      fillAsksValid cfee tp fees = true ∧ FillAsksAdmissible mk attrs cfee tp fees := by
  unfold fillAsksGate FillAsksAdmissible validateAcceptingOrdersAndCanUserSettle
    validateMarketIsAcceptingOrders
  by_cases hv : fillAsksValid cfee tp fees = true
  swap
  · simp [hv]
  simp only [hv, Bool.not_true, Bool.false_eq_true, if_false, true_and]
  have hfees : (fees.map (·.1)).Nodup := by
    unfold fillAsksValid at hv
    simp only [Bool.and_eq_true] at hv
    exact coinsValid_nodup hv.2
  cases mk with
  | none => simp
  | some mkt =>
    have hmw := hw mkt rfl
    simp only [Option.some.injEq, exists_eq_left']
    rw [← flatFee_accepts_iff_spec hmw.hcflat cfee, ← buyerFee_accepts_iff_spec hmw.hbuyer hfees,
      ← acctHasReqAttrs_iff_doc]
    unfold validateCreateBidFees
    rcases flatFee_refusal_is_fee mkt.createBidFlat cfee with a | a <;>
    rcases buyerFee_no_panic hmw.hbuyer fees with b | b <;>
    cases hacc : mkt.acceptingOrders <;> cases hus : mkt.userSettle <;>
    cases hat : acctHasReqAttrs mkt.reqBid attrs <;> simp [a, b, hacc, hus, hat]

theorem fillBidsMsg_valid_gate {m : FillBidsMsg} (hv : m.valid = true) :
    fillBidsValid m.cfee m.sflat = true := by
  unfold FillBidsMsg.valid at hv
  simp only [Bool.and_eq_true] at hv
  exact hv.2

theorem fillAsksMsg_valid_gate {m : FillAsksMsg} (hv : m.valid = true) :
    fillAsksValid m.cfee m.totalPrice m.fees = true := by
  unfold FillAsksMsg.valid at hv
  simp only [Bool.and_eq_true] at hv
  exact hv.2

/-- **User fill of bids (MsgFillBids)**: accepted ⇔ the message is valid, the market exists,
accepts orders and allows user settlement, the seller carries every create-ask attribute, the
ask creation fee and the seller settlement flat fee each cover an option, every id names a
resting bid of this market that is not the seller's own, the stated total assets are the sum
of the named bids' assets, the market can name the seller ratio fee of every price denom, and
the seller can hand over the assets and — with the price received — pay the seller settlement
fees (flat + ⌈summed price·ratio⌉ per denom) and the creation fee. -/
theorem fillBids_admits_iff {mk : Option Market} {attrs : List String} {book : List Order}
    {filler : String} {bal : Coins} {m : FillBidsMsg}
    (hw : ∀ mkt, mk = some mkt → FillBidsWf mkt (namedPrices book m.ids)) :
    fillBids mk attrs book filler bal m = .ok () ↔
      m.valid = true ∧ FillBidsAdmissible mk attrs m.cfee m.sflat ∧
      FillBidsOrdersOk mk book filler m ∧ FillBidsFunded mk book bal m := by
  unfold fillBids
  by_cases hv : m.valid = true
  swap
  · simp [hv]
  simp only [hv, Bool.not_true, Bool.false_eq_true, if_false, true_and]
  cases mk with
  | none => simp [FillBidsAdmissible]
  | some mkt =>
    have hmw := hw mkt rfl
    have hgate := fillBidsGate_iff_doc (mk := some mkt) (attrs := attrs) (cfee := m.cfee) (sflat := m.sflat)
      (fun mkt' h => by cases h; exact ⟨hmw.hcflat, hmw.hsflat⟩)
    simp only [fillBidsMsg_valid_gate hv, true_and] at hgate
    dsimp only
    cases hg : fillBidsGate (some mkt) attrs m.cfee m.sflat with
    | error e =>
      have : ¬ FillBidsAdmissible (some mkt) attrs m.cfee m.sflat := fun h => by
        rw [hgate.2 h] at hg; cases hg
      simp [this]
    | ok u =>
      dsimp only
      have hadm : FillBidsAdmissible (some mkt) attrs m.cfee m.sflat := hgate.1 (by rw [hg])
      simp only [hadm, true_and, FillBidsOrdersOk, FillBidsFunded, Option.some.injEq, exists_eq_left']
      rw [getOrders_eq]
      by_cases hf : ∀ id ∈ m.ids, Fillable book m.marketId true filler id
      swap
      · rw [if_neg hf]
        constructor
        · intro h; cases h
        · rintro ⟨⟨h, _⟩, _⟩; exact absurd h hf
      rw [if_pos hf]
      simp only [and_iff_right hf]
      have hcq := coinsEqv_iff (namedAssets book m.ids) m.totalAssets
      unfold namedAssets at hcq
      by_cases ht : TotalsEq (namedAssets book m.ids) m.totalAssets
      swap
      · have : coinsEqv (List.map (fun o => o.assets) (namedOrders book m.ids)) m.totalAssets = false :=
          Bool.eq_false_iff.2 (fun h => ht (hcq.1 h))
        simp [this, ht]
      have hct : coinsEqv (List.map (fun o => o.assets) (namedOrders book m.ids)) m.totalAssets = true :=
        hcq.2 ht
      simp only [hct, Bool.not_true, Bool.false_eq_true, if_false, ht, true_and]
      have hsr := sellerRatioFees_eq (prices := namedPrices book m.ids) hmw.hratios
        (sumDenoms (namedPrices book m.ids)) hmw.hpos hmw.hfit
      unfold namedPrices at hsr
      rw [hsr]
      by_cases hav : ∀ d ∈ sumDenoms (namedPrices book m.ids), SellerRatioAvail mkt.sellerRatios d
      swap
      · have hav' := hav
        unfold namedPrices at hav'
        rw [if_neg hav']
        constructor
        · intro h; cases h
        · rintro ⟨h, _⟩; exact absurd h hav
      have hav' := hav
      unfold namedPrices at hav'
      rw [if_pos hav']
      simp only [and_iff_right hav]
      exact ite_ok_iff (fillBidsFunds_iff bal m.totalAssets (namedPrices book m.ids)
        (fillBidsSellerFee mkt book m) m.cfee)

/-! ### Fill asks -/

/-- The per-ask seller ratio fee check of `FillAsks` refuses exactly when some named ask is
priced in a denom the market (which defines seller ratios) has no ratio for. -/
theorem askRatioCheck_eq {rs : List Ratio} (hw : RatiosWf rs) :
    ∀ orders : List Order, (∀ o ∈ orders, 0 ≤ o.price.2) → (∀ o ∈ orders, RatiosFit rs o.price) →
      (orders.any (fun o => match calcSellerRatioFee rs o.price with
                            | .error _ => true | .ok _ => false) = false ↔
        ∀ o ∈ orders, SellerRatioAvail rs o.price.1)
  | [], _, _ => by simp
  | o :: rest, hp, hf => by
    have ih := askRatioCheck_eq hw rest (fun x hx => hp x (List.mem_cons_of_mem _ hx))
      (fun x hx => hf x (List.mem_cons_of_mem _ hx))
    have hc := calcSellerRatioFee_eq (price := o.price) hw (hp o List.mem_cons_self) (hf o List.mem_cons_self)
    simp only [List.any_cons, Bool.or_eq_false_iff, List.mem_cons, forall_eq_or_imp, ih, hc]
    by_cases h1 : SellerRatioAvail rs o.price.1 <;> simp [h1]

/-- **User fill of asks (MsgFillAsks)**: accepted ⇔ the message is valid, the market exists,
accepts orders and allows user settlement, the buyer carries every create-bid attribute, the bid
creation fee covers an option, the buyer settlement fees cover a flat option plus a ratio
option for the total price, every id names a resting ask of this market that is not the buyer's
own, the stated total price is the sum of the named asks' prices, the market can name the
seller ratio fee of every named ask, and the buyer can — with the assets received — pay the
total price, then the buyer settlement fees, then the creation fee. -/
theorem fillAsks_admits_iff {mk : Option Market} {attrs : List String} {book : List Order}
    {filler : String} {bal : Coins} {m : FillAsksMsg}
    (hw : ∀ mkt, mk = some mkt → FillAsksWf mkt m.totalPrice (namedOrders book m.ids)) :
    fillAsks mk attrs book filler bal m = .ok () ↔
      m.valid = true ∧ FillAsksAdmissible mk attrs m.cfee m.totalPrice m.fees ∧
      FillAsksOrdersOk mk book filler m ∧ FillAsksFunded book bal m := by
  unfold fillAsks
  by_cases hv : m.valid = true
  swap
  · simp [hv]
  simp only [hv, Bool.not_true, Bool.false_eq_true, if_false, true_and]
  cases mk with
  | none => simp [FillAsksAdmissible]
  | some mkt =>
    have hmw := hw mkt rfl
    have hgate := fillAsksGate_iff_doc (mk := some mkt) (attrs := attrs) (cfee := m.cfee)
      (tp := m.totalPrice) (fees := m.fees) (fun mkt' h => by cases h; exact hmw.hbid)
    simp only [fillAsksMsg_valid_gate hv, true_and] at hgate
    dsimp only
    cases hg : fillAsksGate (some mkt) attrs m.cfee m.totalPrice m.fees with
    | error e =>
      have : ¬ FillAsksAdmissible (some mkt) attrs m.cfee m.totalPrice m.fees := fun h => by
        rw [hgate.2 h] at hg; cases hg
      simp [this]
    | ok u =>
      dsimp only
      have hadm : FillAsksAdmissible (some mkt) attrs m.cfee m.totalPrice m.fees := hgate.1 (by rw [hg])
      simp only [hadm, true_and, FillAsksOrdersOk, FillAsksFunded, Option.some.injEq, exists_eq_left']
      rw [getOrders_eq]
      by_cases hf : ∀ id ∈ m.ids, Fillable book m.marketId false filler id
      swap
      · rw [if_neg hf]
        constructor
        · intro h; cases h
        · rintro ⟨⟨h, _⟩, _⟩; exact absurd h hf
      rw [if_pos hf]
      simp only [and_iff_right hf]
      have hcq := coinsEqv_iff (namedPrices book m.ids) [m.totalPrice]
      unfold namedPrices at hcq
      by_cases ht : TotalsEq (namedPrices book m.ids) [m.totalPrice]
      swap
      · have : coinsEqv (List.map (fun o => o.price) (namedOrders book m.ids)) [m.totalPrice] = false :=
          Bool.eq_false_iff.2 (fun h => ht (hcq.1 h))
        simp [this, ht]
      have hct : coinsEqv (List.map (fun o => o.price) (namedOrders book m.ids)) [m.totalPrice] = true :=
        hcq.2 ht
      simp only [hct, Bool.not_true, Bool.false_eq_true, if_false, ht, true_and]
      have hrc := askRatioCheck_eq hmw.hratios (namedOrders book m.ids) hmw.hpos hmw.hfit
      exact ite_err_ok_iff hrc
        (fillAsksFunds_iff bal (namedAssets book m.ids) m.totalPrice m.fees m.cfee)

/-! ### For every history -/

/-- **User fill of bids, for every history** of authority messages around the creation of the
market: the configuration that counts is the one in force. -/
theorem fillBids_history_iff {h : History} {attrs : List String} {book : List Order}
    {filler : String} {bal : Coins} {m : FillBidsMsg}
    (hw : ∀ c, h.configInForce = some c → FillBidsWf c (namedPrices book m.ids)) :
    fillBids h.run.view attrs book filler bal m = .ok () ↔
      m.valid = true ∧ FillBidsAdmissible h.configInForce attrs m.cfee m.sflat ∧
      FillBidsOrdersOk h.configInForce book filler m ∧ FillBidsFunded h.configInForce book bal m := by
  rw [history_view_eq_configInForce]
  exact fillBids_admits_iff hw

/-- **User fill of asks, for every history.** -/
theorem fillAsks_history_iff {h : History} {attrs : List String} {book : List Order}
    {filler : String} {bal : Coins} {m : FillAsksMsg}
    (hw : ∀ c, h.configInForce = some c → FillAsksWf c m.totalPrice (namedOrders book m.ids)) :
    fillAsks h.run.view attrs book filler bal m = .ok () ↔
      m.valid = true ∧ FillAsksAdmissible h.configInForce attrs m.cfee m.totalPrice m.fees ∧
      FillAsksOrdersOk h.configInForce book filler m ∧ FillAsksFunded book bal m := by
  rw [history_view_eq_configInForce]
  exact fillAsks_admits_iff hw

/-- The stated totals are totals: equal on the denoms mentioned ⇔ equal on every denom. -/
theorem totalsEq_iff_all_denoms (a b : Coins) :
    TotalsEq a b ↔ ∀ d, Coins.amountOf a d = Coins.amountOf b d := by
  have hz : ∀ (c : Coins) (d : Denom), d ∉ Coins.denoms c → Coins.amountOf c d = 0 := by
    intro c d
    induction c with
    | nil => intro _; rfl
    | cons x rest ih =>
      obtain ⟨d', v⟩ := x
      intro hd
      simp only [Coins.denoms, List.map_cons, List.mem_cons, not_or] at hd
      have : ¬ d' = d := fun e => hd.1 e.symm
      simp only [Coins.amountOf_cons, this, if_false, Int.zero_add]
      exact ih hd.2
  unfold TotalsEq
  constructor
  · intro h d
    by_cases hd : d ∈ Coins.denoms a ++ Coins.denoms b
    · exact h d hd
    · simp only [List.mem_append, not_or] at hd
      rw [hz a d hd.1, hz b d hd.2]
  · intro h d _; exact h d

/-! ### Non-vacuity -/

/-- a market with a seller ratio for `usd`, a resting bid of B (id 1), an ask of B (id 2), a bid
of the filler A (id 3), a bid in another market (id 4) -/
def fillBook : List Order :=
  [⟨1, true, 1, "B", ("apple", 3), ("usd", 100)⟩, ⟨2, false, 1, "B", ("apple", 2), ("usd", 50)⟩,
   ⟨3, true, 1, "A", ("apple", 1), ("usd", 10)⟩, ⟨4, true, 2, "B", ("apple", 1), ("usd", 10)⟩]

def fillMarket : Market :=
  { userSettle := true, sellerRatios := [⟨"usd", 100, "usd", 1⟩], sellerFlat := [("fee", 2)] }

def fillBidsMsg1 : FillBidsMsg :=
  { marketId := 1, totalAssets := [("apple", 3)], ids := [1], sflat := some ("fee", 2), cfee := none }

example : FillBidsWf fillMarket (namedPrices fillBook fillBidsMsg1.ids) :=
  ⟨by decide, by decide, ⟨by decide, by decide⟩, by decide, by decide⟩
-- the seller owns the assets and the flat fee; the ratio fee 1usd is paid out of the price
example : fillBids (some fillMarket) [] fillBook "A" [("apple", 3), ("fee", 2)] fillBidsMsg1 = .ok () := by rfl
example : fillBids (some fillMarket) [] fillBook "A" [("apple", 3), ("fee", 1)] fillBidsMsg1 = .error .funds := by rfl
example : fillBids (some fillMarket) [] fillBook "A" [("apple", 9), ("fee", 2)]
    { fillBidsMsg1 with totalAssets := [("apple", 4)] } = .error .total := by rfl
-- an ask, the filler's own bid, a bid of another market, an absent id
example : ∀ id ∈ [2, 3, 4, 9], fillBids (some fillMarket) [] fillBook "A" [("apple", 9), ("fee", 2)]
    { fillBidsMsg1 with ids := [1, id] } = .error .order := by decide
example : FillBidsOrdersOk (some fillMarket) fillBook "A" fillBidsMsg1 ∧
    FillBidsFunded (some fillMarket) fillBook [("apple", 3), ("fee", 2)] fillBidsMsg1 := by decide

def fillAsksMsg1 : FillAsksMsg :=
  { marketId := 1, totalPrice := ("usd", 50), ids := [2], fees := [], cfee := none }

example : FillAsksWf fillMarket fillAsksMsg1.totalPrice (namedOrders fillBook fillAsksMsg1.ids) :=
  ⟨⟨by decide, ⟨⟨by decide, by decide⟩, ⟨by decide, by decide⟩, by decide, by decide, by decide⟩⟩,
   ⟨by decide, by decide⟩, by decide, by decide⟩
example : fillAsks (some fillMarket) [] fillBook "A" [("usd", 50)] fillAsksMsg1 = .ok () := by rfl
example : fillAsks (some fillMarket) [] fillBook "A" [("usd", 49)] fillAsksMsg1 = .error .funds := by rfl
example : fillAsks (some fillMarket) [] fillBook "A" [("usd", 60)]
    { fillAsksMsg1 with totalPrice := ("usd", 51) } = .error .total := by rfl
-- the market defines seller ratios but none for `eur`: an ask priced in `eur` cannot be filled
example : fillAsks (some fillMarket) [] [⟨1, false, 1, "B", ("apple", 2), ("eur", 50)⟩] "A" [("eur", 60)]
    { fillAsksMsg1 with totalPrice := ("eur", 50), ids := [1] } = .error .ratio := by rfl

end PvProofs.C20
