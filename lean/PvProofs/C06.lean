/-
C06 — Sanctioned accounts cannot move funds, and sanction status follows governance.

Property theorems only (helper lemmas live in `PvProofs/Lemmas/Sanc*.lean`).  The model is
`PvModel.Sanc` (sanction keeper + the hook-emitting part of the forked x/gov keeper + the
shared `Ledger`); a *history* is any `List Op`, executed by `run` from `init cfg` for any
configuration `cfg`; every theorem below quantifies over all configurations, all histories
and all addresses / denoms / proposal ids.

* sanction rule: `isSanctioned_spec`, `isSanctioned_spec_reachable`, `checker_rule_iff`,
  `passed_messages_take_effect` (function level), `passed_proposal_takes_effect` (through
  `tallyOne`), `passed_proposal_takes_effect_block` (through the `.block` operation of a history),
  `tally_changes_only_named_addresses`, `immediate_entries_take_effect`,
  `status_changes_only_by_governance`
* immediate entries and the deposit threshold (every denom of the immediate min deposit must
  be reached): `threshold_test_is_per_denom`, `deposit_short_in_one_denom_does_not_reach`,
  `hook_creates_only_reached_entries`, `hook_creates_all_reached_entries`,
  `new_temp_entry_needs_reaching_deposit`, `accepted_deposit_creates_reached_entries`
* protected accounts: `unsanctionable_never_sanctioned`
* temporary entries follow the proposal: `temp_entries_live_or_cancelled`,
  `no_temp_after_passed_rejected_failed`, `no_temp_after_expired`, `index_mirrors_temp`
* the clause "once a proposal has … been cancelled none of its temporary entries remain in
  force" is FALSE of the code: `cancel_calls_no_hook` (for every state: `CancelProposal`
  leaves the sanction store untouched) and the concrete witness `cancel_leaves_temp`
  (replayed on the real app, known_findings.json); `not_no_temp_after_resolution` is the
  negation of the full statement and `no_temp_after_resolution_partial` the part that
  holds (histories without a successful cancellation).
* key layout (keys.go): `temporaryKey_order`, `temporaryAddrPrefix_selects`,
  `temporaryKey_injective`, `proposalIndexPrefix_selects`
* funds: `sanctioned_debit_refused` (restates the branch of the three bank primitives; the
  substantive statements are the next two, over ALL operations of the model — order settlements,
  payments, marker transfers and withdrawals on the account's behalf included),
  `sanctioned_balance_nondecreasing`, `sanctioned_balance_nondecreasing_history`
* the converse (nobody is refused as sanctioned who is not): `sanctioned_refusal_names_sanctioned_debited`,
  `unsanctioned_never_refused_as_sanctioned`, witness `zero_transfer_from_sanctioned`; an
  unsanctioned, funded account gets through every debit route: `unsanctioned_funded_bank_routes_succeed`,
  `unsanctioned_funded_deposit_succeeds`, `unsanctioned_funded_submit_succeeds`,
  `unsanctioned_funded_marker_transfer_succeeds`, `unsanctioned_funded_withdrawals_succeed`,
  `unsanctioned_funded_settlement_succeeds`, `unsanctioned_funded_payment_succeeds`
* "can still receive": `credit_to_sanctioned_succeeds`, `multi_send_credits_sanctioned_outputs`,
  `refunds_reach_sanctioned_depositors`, `credit_with_refused_debit_is_rolled_back`
* funds moved on an account's behalf (marker transfers by an administrator — with an authz grant
  given before the sanction, forced, to a third party or to the administrator itself —,
  withdrawals from a marker's / the market's account, exchange payments and order settlements):
  `behalf_routes_refuse_sanctioned_debit`, `marker_transfer_source_not_sanctioned`,
  `behalf_routes_leave_sanctions_alone`; the balance theorems above quantify over these
  operations too.
-/
import PvProofs.Lemmas.SancPass
import PvProofs.Lemmas.SancThreshold
import PvProofs.Lemmas.SancKeys

namespace PvProofs.C06
open PvModel PvModel.Sanc PvModel.Sanc.Spec PvProofs.Sanc

/-! ### 1. the sanction rule -/

/-- `IsSanctionedAddr` (keeper.go:64) is exactly the documented rule: never for a protected
address; otherwise what the temporary entry with the greatest proposal id says; without a
temporary entry, permanent membership. For every store whose temporary keys are unique. -/
theorem isSanctioned_spec (c : Cfg) (st : Store) (a : Addr) (hu : KeysUnique st.temp) :
    isSanctionedAddr c st a = true ↔ IsSanctioned c.unsanctionable st.perm st.temp a := by
  unfold isSanctionedAddr IsSanctioned
  by_cases h0 : a = "" ∨ a ∈ c.unsanctionable
  · simp only [h0, if_true]
    constructor
    · intro h; cases h
    · rintro ⟨h1, h2, _⟩
      rcases h0 with h0 | h0
      · exact absurd h0 h1
      · exact absurd h0 h2
  · simp only [h0, if_false]
    have h1 : a ≠ "" := fun h => h0 (Or.inl h)
    have h2 : a ∉ c.unsanctionable := fun h => h0 (Or.inr h)
    cases hl : getLatestTempEntry st.temp a with
    | none =>
      have hn := getLatest_eq_none.1 hl
      simp only [decide_eq_true_eq]
      constructor
      · intro hp; exact ⟨h1, h2, Or.inr ⟨hn, hp⟩⟩
      · rintro ⟨_, _, ⟨p, hm, _⟩ | ⟨_, hp⟩⟩
        · exact absurd rfl (hn _ hm)
        · exact hp
    | some v =>
      have hs := (getLatest_eq_some hu).1 hl
      cases v with
      | true => simp only [true_iff]; exact ⟨h1, h2, Or.inl hs⟩
      | false =>
        constructor
        · intro h; cases h
        · rintro ⟨_, _, ht | ⟨hn, _⟩⟩
          · have := (getLatest_eq_some hu).2 ht
            rw [hl] at this; cases this
          · obtain ⟨p, hm, _⟩ := hs
            exact absurd rfl (hn _ hm)

/-- … in particular in every state reachable by any history from any configuration. -/
theorem isSanctioned_spec_reachable (cfg : Cfg) (ops : List Op) (a : Addr) :
    let s := run (init cfg) ops
    isSanctionedAddr s.cfg s.st a = true ↔ IsSanctioned cfg.unsanctionable s.st.perm s.st.temp a := by
  intro s
  obtain ⟨hi, hc, _⟩ := run_inv ops (inv_init cfg)
  have hc' : s.cfg = cfg := hc
  have := isSanctioned_spec s.cfg s.st a hi.store.unique
  rw [hc'] at this
  rw [hc']
  exact this

/-- The function the run-time checker evaluates on a dump of the real store
(`Spec.isSanctioned`) is the documented rule. -/
theorem checker_rule_iff (un perm : List Addr) (t : List TempEntry) (a : Addr) (hu : KeysUnique t) :
    Spec.isSanctioned un perm t a = true ↔ IsSanctioned un perm t a := by
  unfold Spec.isSanctioned IsSanctioned
  by_cases h0 : a = "" ∨ a ∈ un
  · simp only [h0, if_true]
    constructor
    · intro h; cases h
    · rintro ⟨h1, h2, _⟩
      rcases h0 with h0 | h0
      · exact absurd h0 h1
      · exact absurd h0 h2
  · simp only [h0, if_false]
    have h1 : a ≠ "" := fun h => h0 (Or.inl h)
    have h2 : a ∉ un := fun h => h0 (Or.inr h)
    have hmem : ∀ e, e ∈ t.filter (fun e => decide (e.addr = a)) ↔ e ∈ t ∧ e.addr = a := by
      intro e; simp
    cases hf : (t.filter (fun e => decide (e.addr = a))).find?
        (fun e => (t.filter (fun e => decide (e.addr = a))).all (fun e' => decide (e'.id ≤ e.id))) with
    | none =>
      have hempty : t.filter (fun e => decide (e.addr = a)) = [] :=
        Classical.byContradiction fun hne => by
          obtain ⟨m, hm, hmax⟩ := exists_max_id _ hne
          have := List.find?_eq_none.1 hf m hm
          apply this
          simp only [List.all_eq_true, decide_eq_true_eq]
          exact hmax
      have hn : NoTemp t a := by
        intro e he hea
        have : e ∈ t.filter (fun e => decide (e.addr = a)) := (hmem e).2 ⟨he, hea⟩
        rw [hempty] at this; cases this
      simp only [decide_eq_true_eq]
      constructor
      · intro hp; exact ⟨h1, h2, Or.inr ⟨hn, hp⟩⟩
      · rintro ⟨_, _, ⟨p, hm, _⟩ | ⟨_, hp⟩⟩
        · exact absurd rfl (hn _ hm)
        · exact hp
    | some e =>
      have he := (hmem e).1 (List.mem_of_find?_eq_some hf)
      have hmax : ∀ e' ∈ t, e'.addr = a → e'.id ≤ e.id := by
        have := List.find?_some hf
        simp only [List.all_eq_true, decide_eq_true_eq] at this
        intro e' he' hea
        exact this e' ((hmem e').2 ⟨he', hea⟩)
      have hsays : LatestSays t a e.val := by
        refine ⟨e.id, ?_, hmax⟩
        have : e = ⟨a, e.id, e.val⟩ := by cases e; simp_all
        rw [← this]; exact he.1
      simp only
      constructor
      · intro hv; exact ⟨h1, h2, Or.inl (hv ▸ hsays)⟩
      · rintro ⟨_, _, ⟨p, hm, hpm⟩ | ⟨hn, _⟩⟩
        · have hid : e.id = p := Nat.le_antisymm (hpm e he.1 he.2) (hmax _ hm rfl)
          have := hu e he.1 ⟨a, p, true⟩ hm he.2 hid
          rw [this]
        · exact absurd he.2 (hn e he.1)

/-- Sanction status follows governance, permanent part: when the messages of a passed proposal
run, every address of a `MsgSanction` becomes sanctioned and every address of a `MsgUnsanction`
becomes unsanctioned, whatever temporary entries (of any proposal) existed before. -/
theorem passed_messages_take_effect (c : Cfg) (st st' : Store) (addrs : List Addr) (a : Addr)
    (ha : a ∈ addrs) (hne : a ≠ "") :
    (sanctionAddresses c st addrs = .ok st' → isSanctionedAddr c st' a = true) ∧
    isSanctionedAddr c (unsanctionAddresses st addrs) a = false := by
  constructor
  · intro hs
    have hnt : NoTemp st'.temp a := fun e he hea => (temp_sanctionAddresses hs he).2 ⟨hea ▸ hne, hea ▸ ha⟩
    unfold sanctionAddresses at hs
    cases hl : sanctionLoop c st.perm addrs with
    | error e => simp [hl] at hs
    | ok perm =>
      simp only [hl, Except.ok.injEq] at hs
      obtain ⟨h1, h2⟩ := sanctionLoop_ok hl
      have hperm : a ∈ st'.perm := by rw [← hs]; exact (h2 a).2 (Or.inr ha)
      unfold isSanctionedAddr
      have h0 : ¬(a = "" ∨ a ∈ c.unsanctionable) := by
        rintro (h | h)
        · exact hne h
        · exact h1 a ha h
      simp only [h0, if_false, getLatest_eq_none.2 hnt, hperm, decide_true]
  · have hnt : NoTemp (unsanctionAddresses st addrs).temp a :=
      fun e he hea => (temp_unsanctionAddresses he).2 ⟨hea ▸ hne, hea ▸ ha⟩
    have hperm : a ∉ (unsanctionAddresses st addrs).perm := by
      intro hm
      have : a ∈ st.perm.filter (fun x => decide (x ∉ addrs)) := hm
      simp only [List.mem_filter, decide_eq_true_eq] at this
      exact this.2 ha
    unfold isSanctionedAddr
    split_ifs
    · rfl
    · simp only [getLatest_eq_none.2 hnt, hperm, decide_false]

/-- Sanction status follows governance, immediate part: when the hook creates temporary entries
for proposal `id` (deposit ≥ the immediate minimum), every listed address gets the entry
`(a, id) ↦ v`; it decides the address's status as long as no higher-numbered proposal has an
entry for it. -/
theorem immediate_entries_take_effect (c : Cfg) (st st' : Store) (v : Bool) (id : Nat) (addrs : List Addr)
    (a : Addr) (hok : StoreOK c st) (hnes : ∀ x ∈ addrs, x ≠ "") (ha : a ∈ addrs)
    (hun : a ∉ c.unsanctionable)
    (hs : addTempEntries c v id st addrs = .ok st')
    (hlatest : ∀ e ∈ st.temp, e.addr = a → e.id ≤ id) :
    isSanctionedAddr c st' a = v := by
  obtain ⟨k1, _, _, _, k5, k6, _⟩ := addTempEntries_ok hok hnes hs
  have hsays : LatestSays st'.temp a v := by
    refine ⟨id, k6 a ha, ?_⟩
    intro e he hea
    rcases k5 e he with he0 | ⟨hid, _, _⟩
    · exact hlatest e he0 hea
    · omega
  have := (getLatest_eq_some k1.unique).2 hsays
  unfold isSanctionedAddr
  have h0 : ¬(a = "" ∨ a ∈ c.unsanctionable) := by
    rintro (h | h)
    · exact hnes a ha h
    · exact hun h
  simp only [h0, if_false, this]
  cases v <;> rfl

/-- Sanction status follows governance, through the gov module (not just at function level): in
every reachable state, when the tally of proposal `id` (`tallyOne`, one entry of the active queue of
the gov `EndBlocker`: deposits settled, messages executed on a cached context, gov hook called)
turns the proposal — stored and not passed before — into a passed one, every address named by its
messages has afterwards the status the LAST message naming it gives it (`Spec.lastNaming`):
sanctioned for a `MsgSanction`, not sanctioned for a `MsgUnsanction`, whatever temporary entries
of whatever proposals existed.  (Protected accounts need no exception here: a `MsgSanction` naming
one fails, so the proposal ends failed, not passed.) -/
theorem passed_proposal_takes_effect (cfg : Cfg) (ops : List Op) (id : Nat) (s' : State) (p q : Proposal)
    (a : Addr) (v : Bool) :
    let s := run (init cfg) ops
    tallyOne s id = .ok s' → getProp s.props id = some p → p.status ≠ .passed →
    getProp s'.props id = some q → q.status = .passed → lastNaming a p.msgs = some v →
    isSanctionedAddr s'.cfg s'.st a = v := by
  intro s hs hg hnp hg' hq hl
  exact tallyOne_passed_effect (run_inv ops (inv_init cfg)).1 hs hg hnp hg' hq hl

/-- … and the tally of a proposal changes the status of no address it does not name (whether it
passes, fails, is rejected, or is converted from expedited to regular). -/
theorem tally_changes_only_named_addresses (cfg : Cfg) (ops : List Op) (id : Nat) (s' : State) (a : Addr) :
    let s := run (init cfg) ops
    tallyOne s id = .ok s' → (∀ p, getProp s.props id = some p → a ∉ p.allAddrs) →
    isSanctionedAddr s'.cfg s'.st a = isSanctionedAddr s.cfg s.st a := by
  intro s hs ha
  exact tallyOne_other (run_inv ops (inv_init cfg)).1 hs ha

/-- The same as an operation of a history: after the block (`.block dt`: the whole `EndBlocker` —
expiries of the inactive queue, then the tallies of the active queue in key order) in which
proposal `id` passes, every address named by its messages is sanctioned / unsanctioned as the last
message naming it says — provided no OTHER proposal in its voting period names that address (one
tallied later in the same block would act on the address in its turn: pass and override it, or be
converted from expedited to regular and re-create its temporary entry). -/
theorem passed_proposal_takes_effect_block (cfg : Cfg) (ops : List Op) (dt id : Nat) (p q : Proposal)
    (a : Addr) (v : Bool) :
    let s := run (init cfg) ops
    let s' := run (init cfg) (ops ++ [.block dt])
    getProp s.props id = some p → p.status = .voting → getProp s'.props id = some q → q.status = .passed →
    lastNaming a p.msgs = some v → (∀ r ∈ s.props, r.id ≠ id → r.status = .voting → a ∉ r.allAddrs) →
    isSanctionedAddr s'.cfg s'.st a = v := by
  intro s s' hg hv hg' hq hl hoth
  have hs' : s' = step s (.block dt) := by simp [s', s, run, List.foldl_append]
  rw [hs'] at hg' ⊢
  unfold step at hg' ⊢
  cases hop : applyOp s (.block dt) with
  | error e =>
    simp only [hop] at hg'
    rw [hg] at hg'
    have := Option.some.inj hg'
    subst this
    rw [hv] at hq; cases hq
  | ok s2 =>
    simp only [hop] at hg' ⊢
    simp only [applyOp] at hop
    cases he : endBlocker s with
    | error e => simp [he] at hop
    | ok s1 =>
      simp only [he, Except.ok.injEq] at hop
      subst hop
      exact endBlocker_passed_effect (s' := s1) (run_inv ops (inv_init cfg)).1 he hg hv hl hg' hq hoth

/-- the operations through which governance acts on the sanction store -/
def isGovStep : Op → Bool
  | .submit .. | .deposit .. | .block _ | .params .. | .msg _ => true
  | _ => false

/-- Sanction status follows governance only: no fund movement, vote or cancellation ever
changes the sanction store, hence nobody's sanction status. -/
theorem status_changes_only_by_governance (s : State) (op : Op) (h : isGovStep op = false) :
    (step s op).st = s.st ∧ ∀ a, isSanctionedAddr (step s op).cfg (step s op).st a = isSanctionedAddr s.cfg s.st a := by
  have key : (step s op).st = s.st ∧ (step s op).cfg = s.cfg := by
    unfold step
    cases hs : applyOp s op with
    | error e => exact ⟨rfl, rfl⟩
    | ok s' =>
      cases op with
      | submit who msgs initial exp => simp [isGovStep] at h
      | deposit who id amt => simp [isGovStep] at h
      | block dt => simp [isGovStep] at h
      | params a b => simp [isGovStep] at h
      | msg m => simp [isGovStep] at h
      | vote id v =>
        simp only [applyOp, addVote] at hs
        cases hg : getProp s.props id with
        | none => simp [hg] at hs
        | some p =>
          simp only [hg] at hs
          split_ifs at hs
          simp only [Except.ok.injEq] at hs
          subst hs
          exact ⟨rfl, rfl⟩
      | cancel who id =>
        obtain ⟨p, l, _, _, rfl⟩ := cancelProposal_ok hs
        exact ⟨rfl, rfl⟩
      | send f t amt =>
        simp only [applyOp] at hs
        split_ifs at hs
        obtain ⟨rfl, _⟩ := sendCoins_ok hs
        exact ⟨rfl, rfl⟩
      | msend f ts amt =>
        simp only [applyOp, inputOutputCoins] at hs
        split_ifs at hs
        simp only [Except.ok.injEq] at hs
        subst hs
        exact ⟨rfl, rfl⟩
      | delegate who amt =>
        simp only [applyOp, delegateCoins] at hs
        split_ifs at hs
        simp only [Except.ok.injEq] at hs
        subst hs
        exact ⟨rfl, rfl⟩
      | tomod who amt =>
        simp only [applyOp] at hs
        split_ifs at hs
        obtain ⟨rfl, _⟩ := sendCoins_ok hs
        exact ⟨rfl, rfl⟩
      | fund who amt =>
        simp only [applyOp] at hs
        split_ifs at hs
        simp only [Except.ok.injEq] at hs
        subst hs
        exact ⟨rfl, rfl⟩
      | grant a b lim => exact ⟨(applyOp_route (op := .grant a b lim) rfl hs).1.st, (applyOp_route (op := .grant a b lim) rfl hs).1.cfg⟩
      | mxfer admin frm to d x =>
        exact ⟨(applyOp_route (op := .mxfer admin frm to d x) rfl hs).1.st, (applyOp_route (op := .mxfer admin frm to d x) rfl hs).1.cfg⟩
      | mwd admin to d amt =>
        exact ⟨(applyOp_route (op := .mwd admin to d amt) rfl hs).1.st, (applyOp_route (op := .mwd admin to d amt) rfl hs).1.cfg⟩
      | mktwd admin to amt =>
        exact ⟨(applyOp_route (op := .mktwd admin to amt) rfl hs).1.st, (applyOp_route (op := .mktwd admin to amt) rfl hs).1.cfg⟩
      | pay src tgt sa ta =>
        exact ⟨(applyOp_route (op := .pay src tgt sa ta) rfl hs).1.st, (applyOp_route (op := .pay src tgt sa ta) rfl hs).1.cfg⟩
      | settle sl bu as pr =>
        exact ⟨(applyOp_route (op := .settle sl bu as pr) rfl hs).1.st, (applyOp_route (op := .settle sl bu as pr) rfl hs).1.cfg⟩
  exact ⟨key.1, fun a => by rw [key.1, key.2]⟩
/-! ### 1b. immediate entries and the deposit threshold

A proposal acts before it passes only through the gov hook, and only when its total deposit
reaches the immediate min deposit of the kind of message: the parameter is not zero and EVERY
denom of it is reached (`Spec.Reaches`); a deposit that covers some of the denoms only does
not count. -/

/-- The threshold test of the hook (gov_hooks.go:69-76: `!minDeposit.IsZero()` and
`deposit.SafeSub(minDeposit...)` without a negative coin) and the function the run-time checker
evaluates on dumps are both the documented per-denom rule. -/
theorem threshold_test_is_per_denom (total m : Coins) :
    (Sanc.reachesMin total m = true ↔ Reaches total m) ∧ (Spec.reaches total m = true ↔ Reaches total m) :=
  ⟨reachesMin_iff total m, reaches_iff total m⟩

/-- A total deposit that is short in ONE denom of the immediate min deposit does not reach it,
however much it holds of the other denoms. -/
theorem deposit_short_in_one_denom_does_not_reach (total m : Coins) (d : Denom) (hd : d ∈ Coins.denoms m)
    (hshort : Coins.amountOf total d < Coins.amountOf m d) :
    Sanc.reachesMin total m = false ∧ Spec.reaches total m = false := by
  have hno : ¬ Reaches total m := fun h => absurd (h.2 d hd) (by omega)
  constructor
  · cases h : Sanc.reachesMin total m
    · rfl
    · exact absurd ((reachesMin_iff total m).1 h) hno
  · cases h : Spec.reaches total m
    · rfl
    · exact absurd ((reaches_iff total m).1 h) hno

/-- The gov hook (gov_hooks.go:53, called after submission, after every deposit, at the end of
the voting period and when the deposit period expires) creates a temporary entry only for an
address of a message of a proposal in its deposit or voting period whose total deposit reaches
the immediate min deposit of that kind of message; it never changes the parameters. -/
theorem hook_creates_only_reached_entries (c : Cfg) (st st' : Store) (prop : Option Proposal) (id : Nat)
    (hok : StoreOK c st) (hne : ∀ p, prop = some p → ∀ m ∈ p.msgs, ∀ a ∈ m.addrs, a ≠ "")
    (hs : proposalGovHook c st prop id = .ok st') :
    st'.sancMin = st.sancMin ∧ st'.unsancMin = st.unsancMin ∧
    ∀ e ∈ st'.temp, e ∈ st.temp ∨
      (e.id = id ∧ ∃ p, prop = some p ∧ p.active = true ∧ ∃ m ∈ p.msgs, m.isSanction = e.val ∧ e.addr ∈ m.addrs ∧
        Reaches p.total (if e.val then st.sancMin else st.unsancMin)) := by
  obtain ⟨k1, k2, k3⟩ := hook_new hok hne hs
  refine ⟨k1, k2, fun e he => (k3 e he).imp (fun x => x) ?_⟩
  rintro ⟨hid, p, hp, hact, m, hm, hv, hmem, hr⟩
  refine ⟨hid, p, hp, hact, m, hm, hv, hmem, ?_⟩
  have := (reachesMin_iff _ _).1 hr
  rw [hv] at this
  exact this

/-- … and it creates all of them: for a proposal in its deposit or voting period, every address
named by a message whose threshold the total deposit reaches has afterwards the entry of the
last such message naming it. -/
theorem hook_creates_all_reached_entries (c : Cfg) (st st' : Store) (p : Proposal) (id : Nat) (a : Addr) (v : Bool)
    (hok : StoreOK c st) (hne : ∀ m ∈ p.msgs, ∀ a ∈ m.addrs, a ≠ "") (hact : p.active = true)
    (hs : proposalGovHook c st (some p) id = .ok st')
    (hl : lastReached (fun m => Spec.reaches p.total (if m.isSanction then st.sancMin else st.unsancMin)) a p.msgs
      = some v) :
    (⟨a, id, v⟩ : TempEntry) ∈ st'.temp := by
  apply hook_present hok hne hact hs
  have hf : (fun m : PMsg => Spec.reaches p.total (if m.isSanction then st.sancMin else st.unsancMin)) =
      (fun m : PMsg => Sanc.reachesMin p.total (immediateMin st m.isSanction)) := by
    funext m; rw [reaches_eq_reachesMin]; rfl
  rw [← hf]; exact hl

/-- For every history and every further operation (the end-blocker with all its expiries and
tallies included): a temporary entry that was not there before the operation belongs to a
stored proposal in its deposit or voting period whose total deposit reaches — in every denom —
the immediate min deposit of the entry's kind.  (The run-time checker evaluates exactly this
on two consecutive dumps: `Spec.newEntryJustified`.) -/
theorem new_temp_entry_needs_reaching_deposit (cfg : Cfg) (ops : List Op) (op : Op) :
    let s := run (init cfg) ops
    ∀ e ∈ (step s op).st.temp, e ∈ s.st.temp ∨
      ∃ p ∈ (step s op).props, p.id = e.id ∧ p.active = true ∧
        Reaches p.total (if e.val then (step s op).st.sancMin else (step s op).st.unsancMin) := by
  intro s
  obtain ⟨hi, _, _⟩ := run_inv ops (inv_init cfg)
  have concl : ∀ s' : State, NewOK s s' → ∀ e ∈ s'.st.temp, e ∈ s.st.temp ∨
      ∃ p ∈ s'.props, p.id = e.id ∧ p.active = true ∧
        Reaches p.total (if e.val then s'.st.sancMin else s'.st.unsancMin) := by
    intro s' hn e he
    refine (hn.2.2 e he).imp (fun x => x) ?_
    rintro ⟨p, hp, hid, hact, hr⟩
    exact ⟨p, hp, hid, hact, (reachesMin_iff _ _).1 hr⟩
  by_cases hg : isGovStep op = false
  · intro e he
    rw [(status_changes_only_by_governance s op hg).1] at he
    exact Or.inl he
  · unfold step
    cases hs : applyOp s op with
    | error e => exact fun e he => Or.inl he
    | ok s' =>
      cases op with
      | submit who msgs initial exp => exact concl s' (submitProposal_newOK hi hs)
      | deposit who id amt =>
        simp only [applyOp] at hs
        split_ifs at hs
        exact concl s' (addDeposit_newOK hi hs)
      | block dt =>
        simp only [applyOp] at hs
        cases he : endBlocker s with
        | error e => simp [he] at hs
        | ok s1 =>
          simp only [he, Except.ok.injEq] at hs
          subst hs
          exact concl s1 (endBlocker_newOK hi he)
      | params a b =>
        simp only [applyOp, updateParams] at hs
        split_ifs at hs
        simp only [Except.ok.injEq] at hs
        subst hs
        exact fun e he => Or.inl he
      | msg m =>
        simp only [applyOp] at hs
        cases hm : msgSanction s.cfg s.st m with
        | error e => simp [hm] at hs
        | ok st =>
          simp only [hm, Except.ok.injEq] at hs
          subst hs
          exact fun e he => Or.inl ((msgSanction_ok hi.store hm).2 e he).1
      | vote id v => simp [isGovStep] at hg
      | cancel who id => simp [isGovStep] at hg
      | send f t amt => simp [isGovStep] at hg
      | msend f ts amt => simp [isGovStep] at hg
      | delegate who amt => simp [isGovStep] at hg
      | tomod who amt => simp [isGovStep] at hg
      | fund who amt => simp [isGovStep] at hg
      | grant a b lim => simp [isGovStep] at hg
      | mxfer admin frm to d x => simp [isGovStep] at hg
      | mwd admin to d amt => simp [isGovStep] at hg
      | mktwd admin to amt => simp [isGovStep] at hg
      | pay src tgt sa ta => simp [isGovStep] at hg
      | settle sl bu as pr => simp [isGovStep] at hg

/-- For every history: after an accepted deposit (`MsgDeposit`, or the initial deposit of an
accepted `MsgSubmitProposal`, whose proposal gets the id `nextId`) the proposal is stored and
every address named by a message whose threshold its total deposit now reaches has the entry of
the last such message.  (`Spec.reachedEntriesPresent` on the dump after the operation.) -/
theorem accepted_deposit_creates_reached_entries (cfg : Cfg) (ops : List Op) (s' : State) :
    let s := run (init cfg) ops
    let concl := fun (id : Nat) => ∃ p ∈ s'.props, p.id = id ∧ ∀ a v,
      lastReached (fun m => Spec.reaches p.total (if m.isSanction then s'.st.sancMin else s'.st.unsancMin)) a p.msgs
        = some v → (⟨a, id, v⟩ : TempEntry) ∈ s'.st.temp
    (∀ who id amt, applyOp s (.deposit who id amt) = .ok s' → concl id) ∧
    (∀ who msgs initial exp, applyOp s (.submit who msgs initial exp) = .ok s' → concl s.nextId) := by
  intro s concl
  obtain ⟨hi, _, _⟩ := run_inv ops (inv_init cfg)
  constructor
  · intro who id amt hs
    simp only [applyOp] at hs
    split_ifs at hs
    exact addDeposit_present hi hs
  · intro who msgs initial exp hs
    obtain ⟨mid, hmid, _, hd⟩ := submitProposal_mid hi hs
    exact addDeposit_present hmid hd

/-! ### 2. protected accounts -/

/-- In every reachable state an unsanctionable (protected module) account is not sanctioned,
is not in the permanent set and has no temporary *sanction* entry.  (The first conjunct is the
first test of `IsSanctionedAddr`; the content is the other two — invariants of every history: no
`SanctionAddresses` / hook ever stores such an address — and, through the tally,
`passed_proposal_takes_effect`: a proposal whose `MsgSanction` names one ends failed, not passed.) -/
theorem unsanctionable_never_sanctioned (cfg : Cfg) (ops : List Op) (a : Addr) (ha : a ∈ cfg.unsanctionable) :
    let s := run (init cfg) ops
    isSanctionedAddr s.cfg s.st a = false ∧ a ∉ s.st.perm ∧ ∀ e ∈ s.st.temp, e.addr = a → e.val = false := by
  intro s
  obtain ⟨hi, hc, _⟩ := run_inv ops (inv_init cfg)
  have ha' : a ∈ s.cfg.unsanctionable := by rw [hc]; exact ha
  refine ⟨?_, hi.store.permProt a ha', fun e he hea => hi.store.tempProt e he (hea ▸ ha')⟩
  unfold isSanctionedAddr
  simp [ha']

/-! ### 3. temporary entries follow their proposal -/

/-- In every reachable state every temporary entry belongs to a stored proposal that is still
in its deposit or voting period and names the address — or to a cancelled proposal. -/
theorem temp_entries_live_or_cancelled (cfg : Cfg) (ops : List Op) :
    let s := run (init cfg) ops
    ∀ e ∈ s.st.temp,
      (∃ p ∈ s.props, p.id = e.id ∧ p.active = true ∧ e.addr ∈ p.allAddrs) ∨ e.id ∈ s.cancelled :=
  fun e he => (run_inv ops (inv_init cfg)).1.live e he

/-- Once a proposal has passed, been rejected or failed, none of its temporary entries remain
(for all histories, cancellations of other proposals included). -/
theorem no_temp_after_passed_rejected_failed (cfg : Cfg) (ops : List Op) :
    let s := run (init cfg) ops
    ∀ p ∈ s.props, p.active = false → ∀ e ∈ s.st.temp, e.id ≠ p.id := by
  intro s p hp hna e he hid
  obtain ⟨hi, _, _⟩ := run_inv ops (inv_init cfg)
  rcases hi.live e he with ⟨q, hq, hqid, hqa, _⟩ | hc
  · have : q = p := eq_of_mem_of_id hi.idsNodup hq hp (by omega)
    subst this
    rw [hna] at hqa; cases hqa
  · exact (hi.cancelledOk e.id hc).2 p hp hid.symm

/-- A proposal that is gone from the gov store without having been cancelled (deposit period
expired) has no temporary entries. -/
theorem no_temp_after_expired (cfg : Cfg) (ops : List Op) :
    let s := run (init cfg) ops
    ∀ id, getProp s.props id = none → id ∉ s.cancelled → ∀ e ∈ s.st.temp, e.id ≠ id := by
  intro s id hg hnc e he hid
  obtain ⟨hi, _, _⟩ := run_inv ops (inv_init cfg)
  rcases hi.live e he with ⟨q, hq, hqid, _, _⟩ | hc
  · exact getProp_none hg q hq (by omega)
  · exact hnc (hid ▸ hc)

/-- The deposit-period expiry step itself: after `EndBlocker` drops proposal `id`, no temporary
entry of `id` is left (from any reachable state). -/
theorem expire_removes_temp (cfg : Cfg) (ops : List Op) (id : Nat) (s' : State) :
    let s := run (init cfg) ops
    getProp s.props id ≠ none → expireOne s id = .ok s' → ∀ e ∈ s'.st.temp, e.id ≠ id := by
  intro s hg hs e he hid
  obtain ⟨hi, _, _⟩ := run_inv ops (inv_init cfg)
  obtain ⟨hi', _, hcan⟩ := expireOne_inv hi hs
  cases hgp : getProp s.props id with
  | none => exact hg hgp
  | some p =>
    obtain ⟨hp, hpid⟩ := getProp_some hgp
    have hgone : ∀ q ∈ s'.props, q.id ≠ id := by
      unfold expireOne at hs
      simp only [hgp] at hs
      cases hse : settle { s with props := delProp s.props id } s.cfg.burnPrevote p.deposits with
      | error e => simp [hse] at hs
      | ok s2 =>
        simp only [hse] at hs
        obtain ⟨l, rfl⟩ := settle_ok hse
        simp only [getProp_delProp] at hs
        have hh : proposalGovHook s.cfg s.st none id = .ok (deleteGovPropTempEntries s.st id) := rfl
        simp only [hh, Except.ok.injEq] at hs
        subst hs
        intro q hq
        exact (mem_delProp.1 hq).2
    rcases hi'.live e he with ⟨q, hq, hqid, _, _⟩ | hc
    · exact hgone q hq (by omega)
    · rw [hcan] at hc
      exact (hi.cancelledOk e.id hc).2 p hp (by omega)

/-- The index by proposal lists exactly the temporary entries (so `DeleteGovPropTempEntries`,
which reads the index, finds all of them), and keys are unique. -/
theorem index_mirrors_temp (cfg : Cfg) (ops : List Op) :
    let s := run (init cfg) ops
    (∀ e, e ∈ s.st.idx ↔ e ∈ s.st.temp) ∧ KeysUnique s.st.temp :=
  ⟨(run_inv ops (inv_init cfg)).1.store.mirror, (run_inv ops (inv_init cfg)).1.store.unique⟩

/-! ### 4. cancellation — the clause that is false of the code

Full statement (FALSE): for every history, every temporary entry belongs to a stored proposal
in its deposit or voting period, i.e. once a proposal has passed, failed, been rejected,
expired **or been cancelled** none of its temporary entries remain:

  `∀ cfg ops, ∀ e ∈ (run (init cfg) ops).st.temp, ∃ p ∈ (run (init cfg) ops).props, p.id = e.id ∧ p.active`
-/

/-- `CancelProposal` (sdk x/gov/keeper/proposal.go:135) calls no gov hook: for every state it
deletes the proposal and leaves the sanction store exactly as it was.  (By itself this reads off the
model function; what it is for is the history-level pair next to it: the witness
`cancel_leaves_temp` / `not_no_temp_after_resolution`, replayed on the real app, and
`temp_entries_live_or_cancelled`, which shows cancellation is the ONLY way an entry outlives its
proposal.) -/
theorem cancel_calls_no_hook (s s' : State) (who : Addr) (id : Nat)
    (h : cancelProposal s who id = .ok s') :
    s'.st = s.st ∧ getProp s'.props id = none ∧
      ∀ a, isSanctionedAddr s'.cfg s'.st a = isSanctionedAddr s.cfg s.st a := by
  obtain ⟨p, l, _, _, rfl⟩ := cancelProposal_ok h
  exact ⟨rfl, getProp_delProp _ _, fun _ => rfl⟩

def witnessCfg : Cfg := { unsanctionable := ["GOV"] }

/-- submit with a deposit ≥ the immediate threshold, then cancel -/
def witnessOps : List Op :=
  [ .fund "A" [("stake", 1000)],
    .params [("stake", 500)] [],
    .submit "A" [⟨true, true, ["B"]⟩] [("stake", 600)] false,
    .cancel "A" 1 ]

/-- Witness: B was never permanently sanctioned, the only proposal naming it was cancelled and
is gone from the gov store — and B is still sanctioned by that proposal's temporary entry. -/
theorem cancel_leaves_temp :
    getProp (run (init witnessCfg) witnessOps).props 1 = none ∧
    (run (init witnessCfg) witnessOps).cancelled = [1] ∧
    (run (init witnessCfg) witnessOps).st.temp = [⟨"B", 1, true⟩] ∧
    (run (init witnessCfg) witnessOps).st.perm = [] ∧
    isSanctionedAddr witnessCfg (run (init witnessCfg) witnessOps).st "B" = true := by
  decide

/-- the negation of the full statement -/
theorem not_no_temp_after_resolution :
    ¬ ∀ (cfg : Cfg) (ops : List Op), ∀ e ∈ (run (init cfg) ops).st.temp,
        ∃ p ∈ (run (init cfg) ops).props, p.id = e.id ∧ p.active = true := by
  intro h
  obtain ⟨hg, _, ht, _, _⟩ := cancel_leaves_temp
  obtain ⟨p, hp, hid, _⟩ := h witnessCfg witnessOps ⟨"B", 1, true⟩ (by rw [ht]; exact List.mem_cons_self)
  exact getProp_none hg p hp hid

/-- What holds: in a history without cancellation every temporary entry belongs to a stored
proposal that is still in its deposit or voting period (so after a proposal passed, was
rejected, failed or expired none of its temporary entries remain).
Missing for the full statement: the code calls no hook in `CancelProposal`. -/
theorem no_temp_after_resolution_partial (cfg : Cfg) (ops : List Op)
    (hnc : ∀ op ∈ ops, isCancel op = false) :
    let s := run (init cfg) ops
    ∀ e ∈ s.st.temp, ∃ p ∈ s.props, p.id = e.id ∧ p.active = true ∧ e.addr ∈ p.allAddrs := by
  intro s e he
  obtain ⟨hi, _, hc⟩ := run_inv ops (inv_init cfg)
  rcases hi.live e he with h | h
  · exact h
  · rw [hc hnc] at h; cases h

/-! ### 5. funds -/

/-- Every bank primitive refuses to debit a sanctioned account (send restriction,
send_restriction.go:15, applied by `SendCoins`, `InputOutputCoins`, `DelegateCoins`).
This restates the branch of the three model functions; the substantive versions are
`sanctioned_balance_nondecreasing(_history)` (no operation of any kind lowers a balance) and the
converse `sanctioned_refusal_names_sanctioned_debited` (§5c). -/
theorem sanctioned_debit_refused (s : State) (a to : Addr) (tos : List Addr) (amt : Coins)
    (ha : isSanctionedAddr s.cfg s.st a = true) :
    (∀ s', sendCoins s a to amt ≠ .ok s') ∧ (∀ s', delegateCoins s a to amt ≠ .ok s') ∧
      (∀ s', inputOutputCoins s a tos amt ≠ .ok s') := by
  refine ⟨?_, ?_, ?_⟩
  · intro s' h
    obtain ⟨_, hf⟩ := sendCoins_ok h
    rw [ha] at hf; cases hf
  · intro s' h
    unfold delegateCoins at h
    split_ifs at h
  · intro s' h
    unfold inputOutputCoins at h
    split_ifs at h

/-- From every reachable state, no operation of any kind (send, multi-send, delegation, fee
payment, deposit, proposal submission, cancellation refunds, end-blocker refunds/burns, …)
lowers any balance of an account that is sanctioned when the operation starts. -/
theorem sanctioned_balance_nondecreasing (cfg : Cfg) (hc : CfgOK cfg) (ops : List Op) (op : Op) (a : Addr)
    (d : Denom) :
    let s := run (init cfg) ops
    isSanctionedAddr s.cfg s.st a = true → s.ledger.bal a d ≤ (step s op).ledger.bal a d := by
  intro s ha
  obtain ⟨hi, hcfg, _⟩ := run_inv ops (inv_init cfg)
  unfold step
  cases hs : applyOp s op with
  | error e => exact Int.le_refl _
  | ok s' => exact applyOp_bal hi (by rw [hcfg]; exact hc) hs ha d

/-- Along any stretch `more` of a history during which the account is sanctioned before every
operation, its balances never decrease.  `more` ranges over ALL operations of the model (`Op`):
gov submissions / deposits / votes / cancellations / blocks, sends, multi-sends, delegations, fee
payments, and the routes on the account's behalf — marker transfers (`mxfer`), marker and market
withdrawals (`mwd`, `mktwd`), exchange payments (`pay`) and order settlements (`settle`). -/
theorem sanctioned_balance_nondecreasing_history (cfg : Cfg) (hc : CfgOK cfg) (a : Addr) (d : Denom)
    (ops more : List Op)
    (hs : ∀ k, k < more.length →
      isSanctionedAddr cfg (run (init cfg) (ops ++ more.take k)).st a = true) :
    (run (init cfg) ops).ledger.bal a d ≤ (run (init cfg) (ops ++ more)).ledger.bal a d := by
  obtain ⟨hi, hcfg, _⟩ := run_inv ops (inv_init cfg)
  have hcfg' : (run (init cfg) ops).cfg = cfg := hcfg
  have happ : ∀ l, run (init cfg) (ops ++ l) = run (run (init cfg) ops) l := by
    intro l; simp [run, List.foldl_append]
  rw [happ]
  apply run_balance_mono a d more _ hi (by rw [hcfg']; exact hc)
  intro k hk
  rw [hcfg', ← happ]
  exact hs k hk

/-- A sanctioned account can still receive: a transfer from a funded, unsanctioned account to
any account (sanctioned or not) succeeds and credits exactly the amount. -/
theorem credit_to_sanctioned_succeeds (s : State) (frm to : Addr) (amt : Coins)
    (hf : isSanctionedAddr s.cfg s.st frm = false) (hfunds : hasFunds s.ledger frm amt = true) :
    ∃ s', sendCoins s frm to amt = .ok s' ∧ s'.st = s.st ∧
      ∀ d, frm ≠ to → s'.ledger.bal to d = s.ledger.bal to d + Coins.amountOf amt d := by
  refine ⟨{ s with ledger := s.ledger.move frm to amt }, ?_, rfl, ?_⟩
  · unfold sendCoins; simp [hf, hfunds]
  · intro d hne
    simp only [Ledger.bal_move, hne, if_false, if_true]
    omega

/-! ### 5b. funds moved on an account's behalf

The property's list of routes ends with "transfers made on its behalf": the message is signed by
somebody else — a marker administrator holding an authz grant the account gave before it was
sanctioned, or force-transfer access; the market settling the account's orders; the other party
of a payment — and the coins leave the sanctioned account.  All of these end in the bank's
`SendCoins` / `InputOutputCoins`, where the sanction restriction looks at the account that is
debited and at nothing else (not at the signer, not at the destination, not at the marker
module's bypass). -/

/-- No operation that moves funds on an account's behalf debits a sanctioned account: a marker
transfer out of it (by any administrator, with any grant, forced or not, to any destination —
the administrator's own account included), a withdrawal from it when it is a marker's or the
market's account, a payment it is the paying side of, a settlement of its ask or of its bid. -/
theorem behalf_routes_refuse_sanctioned_debit (s s' : State) (a : Addr)
    (ha : isSanctionedAddr s.cfg s.st a = true) :
    (∀ admin to d x, 0 ≤ x → transferCoin s admin a to d x ≠ .ok s') ∧
    (∀ admin to d amt, applyOp s (.mwd admin to d amt) = .ok s' → ∀ m, getMarkerByDenom s.cfg d = some m → m.addr ≠ a) ∧
    (∀ admin to amt, applyOp s (.mktwd admin to amt) = .ok s' → s.cfg.market ≠ a) ∧
    (∀ other sAmt tAmt, applyOp s (.pay a other sAmt tAmt) = .ok s' → sAmt = []) ∧
    (∀ other sAmt tAmt, applyOp s (.pay other a sAmt tAmt) = .ok s' → tAmt = []) ∧
    (∀ other assets price, applyOp s (.settle a other assets price) ≠ .ok s' ∧
      applyOp s (.settle other a assets price) ≠ .ok s') := by
  refine ⟨?_, ?_, ?_, ?_, ?_, ?_⟩
  · intro admin to d x hx h
    have := (transferCoin_ok hx h).2
    rw [ha] at this; cases this
  · intro admin to d amt h m hm hma
    simp only [applyOp] at h
    split_ifs at h with hv
    have hva : validAmt amt = true := by
      cases h1 : validAmt amt
      · exact absurd (Or.inr (Or.inr (by simp [h1]))) hv
      · rfl
    obtain ⟨_, m', hm', hs'⟩ := withdrawCoins_ok (validAmt_nonneg hva) h
    rw [hm] at hm'
    cases hm'
    rw [hma, ha] at hs'; cases hs'
  · intro admin to amt h hma
    simp only [applyOp] at h
    split_ifs at h with hv
    have hva : validAmt amt = true := by
      cases h1 : validAmt amt
      · exact absurd (Or.inr (Or.inr (by simp [h1]))) hv
      · rfl
    have := (withdrawMarketFunds_ok (validAmt_nonneg hva) h).2
    rw [hma, ha] at this; cases this
  · intro other sAmt tAmt h
    simp only [applyOp] at h
    split_ifs at h with hv
    have hcv : coinsValid sAmt = true ∧ coinsValid tAmt = true := by
      cases h1 : coinsValid sAmt <;> cases h2 : coinsValid tAmt <;>
        first | exact ⟨rfl, rfl⟩ | exact absurd (Or.inr (Or.inr (Or.inl (by simp [h1, h2])))) hv
    have k := (acceptPayment_ok (coinsValid_nonneg hcv.1) (coinsValid_nonneg hcv.2) h).2.1
    cases sAmt with
    | nil => rfl
    | cons c r => have := k rfl; rw [ha] at this; cases this
  · intro other sAmt tAmt h
    simp only [applyOp] at h
    split_ifs at h with hv
    have hcv : coinsValid sAmt = true ∧ coinsValid tAmt = true := by
      cases h1 : coinsValid sAmt <;> cases h2 : coinsValid tAmt <;>
        first | exact ⟨rfl, rfl⟩ | exact absurd (Or.inr (Or.inr (Or.inl (by simp [h1, h2])))) hv
    have k := (acceptPayment_ok (coinsValid_nonneg hcv.1) (coinsValid_nonneg hcv.2) h).2.2
    cases tAmt with
    | nil => rfl
    | cons c r => have := k rfl; rw [ha] at this; cases this
  · intro other assets price
    have key : ∀ sl bu, (sl = a ∨ bu = a) → applyOp s (.settle sl bu assets price) ≠ .ok s' := by
      intro sl bu hor h
      simp only [applyOp] at h
      split_ifs at h with hv
      have hva : validAmt assets = true ∧ validAmt price = true := by
        cases h1 : validAmt assets <;> cases h2 : validAmt price <;>
          first | exact ⟨rfl, rfl⟩ | exact absurd (Or.inr (Or.inr (Or.inr (Or.inl (by simp [h1, h2]))))) hv
      obtain ⟨_, k1, k2⟩ := settleOrders_ok (validAmt_nonneg hva.1) (validAmt_nonneg hva.2) h
      rcases hor with rfl | rfl
      · rw [ha] at k1; cases k1
      · rw [ha] at k2; cases k2
    exact ⟨key a other (Or.inl rfl), key other a (Or.inr rfl)⟩

/-- The accepted `MsgTransferRequest`, as an operation of a history: the account the coins left
was not sanctioned when it started, and what happened is a change of the ledger and of the authz
grants only. -/
theorem marker_transfer_source_not_sanctioned (s s' : State) (admin frm to : Addr) (d : Denom) (x : Int)
    (h : applyOp s (.mxfer admin frm to d x) = .ok s') :
    isSanctionedAddr s.cfg s.st frm = false ∧ s'.st = s.st ∧ s'.props = s.props ∧ s'.cfg = s.cfg := by
  have r := applyOp_route (op := .mxfer admin frm to d x) rfl h
  simp only [applyOp] at h
  split_ifs at h with hv
  have hx : 0 ≤ x := by
    have : ¬ x < 0 := fun hx => hv (Or.inr (Or.inr (Or.inr hx)))
    omega
  exact ⟨(transferCoin_ok hx h).2, r.1.st, r.1.props, r.1.cfg⟩

/-- None of these operations (nor the authz grant) changes anybody's sanction status or anything
else governance looks at; in particular a grant given before a sanction gives its holder no
way to lift or to dodge it. -/
theorem behalf_routes_leave_sanctions_alone (s s' : State) (op : Op) (hr : isRoute op = true)
    (h : applyOp s op = .ok s') :
    s'.st = s.st ∧ s'.props = s.props ∧ s'.cancelled = s.cancelled ∧
      ∀ a, isSanctionedAddr s'.cfg s'.st a = isSanctionedAddr s.cfg s.st a := by
  have r := (applyOp_route hr h).1
  exact ⟨r.st, r.props, r.cancelled, fun a => by rw [r.st, r.cfg]⟩

/-! ### 5c. the converse of the refusal: nobody is refused as sanctioned who is not

`sanctioned_debit_refused` / `behalf_routes_refuse_sanctioned_debit` say a debit of a sanctioned
account is refused.  The converse has two halves: an answer `err:sanctioned` always names a
sanctioned account among those the operation debits (`Spec.debited`, the list the run-time checker
uses for `fail:unsanctioned_refused`), and an unsanctioned, funded account gets through every debit
route of the model. -/

/-- For every history and every further operation: when the operation is answered
`err:sanctioned`, one of the accounts it debits (`Spec.debited`) is sanctioned — or it is a marker
transfer of amount ZERO out of a sanctioned account (the bank applies the send restriction to an
empty amount too; nothing is debited, `debited` is empty; witness `zero_transfer_from_sanctioned`).
The gov module account is protected (app/app.go:676-680), so refunds never fail this way. -/
theorem sanctioned_refusal_names_sanctioned_debited (cfg : Cfg) (hg : cfg.govAcct ∈ cfg.unsanctionable)
    (ops : List Op) (op : Op) :
    let s := run (init cfg) ops
    applyOp s op = .error .sanctioned →
      (∃ a ∈ debited s.cfg op, isSanctionedAddr s.cfg s.st a = true) ∨
      (∃ admin frm to d, op = .mxfer admin frm to d 0 ∧ isSanctionedAddr s.cfg s.st frm = true) := by
  intro s h
  obtain ⟨hi, hc, _⟩ := run_inv ops (inv_init cfg)
  have hc' : s.cfg = cfg := hc
  exact applyOp_sanctioned (by rw [hc']; exact hg) hi.store.sancPos hi.store.unsancPos h

/-- The checker's clause `fail:unsanctioned_refused`, for the model: an operation that debits
somebody, none of the debited accounts being sanctioned, is never answered `err:sanctioned`. -/
theorem unsanctioned_never_refused_as_sanctioned (cfg : Cfg) (hg : cfg.govAcct ∈ cfg.unsanctionable)
    (ops : List Op) (op : Op) :
    let s := run (init cfg) ops
    debited s.cfg op ≠ [] → (∀ a ∈ debited s.cfg op, isSanctionedAddr s.cfg s.st a = false) →
    applyOp s op ≠ .error .sanctioned := by
  intro s hne hall h
  rcases sanctioned_refusal_names_sanctioned_debited cfg hg ops op h with ⟨a, ha, hs⟩ | ⟨admin, frm, to, d, rfl, _⟩
  · rw [hall a ha] at hs; cases hs
  · exact hne (by simp [debited])

/-- The bank routes: an unsanctioned account holding the amount sends, multi-sends, pays a fee to
the fee collector and delegates. -/
theorem unsanctioned_funded_bank_routes_succeed (s : State) (a to : Addr) (tos : List Addr) (amt : Coins)
    (hv : validAmt amt = true) (hu : isSanctionedAddr s.cfg s.st a = false) :
    (hasFunds s.ledger a amt = true →
      applyOp s (.send a to amt) = .ok { s with ledger := s.ledger.move a to amt } ∧
      applyOp s (.tomod a amt) = .ok { s with ledger := s.ledger.move a s.cfg.feeColl amt } ∧
      (onlyBond s.cfg amt = true →
        applyOp s (.delegate a amt) = .ok { s with ledger := s.ledger.move a s.cfg.bondPool amt })) ∧
    (tos ≠ [] → hasFunds s.ledger a (Coins.scale tos.length amt) = true →
      applyOp s (.msend a tos amt) = .ok { s with ledger := tos.foldl (fun l t => l.move a t amt) s.ledger }) := by
  refine ⟨fun hf => ⟨?_, ?_, fun hb => ?_⟩, fun hne hf => ?_⟩
  · simp [applyOp, hv, sendCoins_succeeds hu hf]
  · simp [applyOp, hv, sendCoins_succeeds hu hf]
  · simp [applyOp, delegateCoins, hv, hb, hu, hf]
  · have : tos.isEmpty = false := by cases tos <;> simp_all
    simp [applyOp, inputOutputCoins, hv, hu, hf, this]

/-- A gov deposit of an unsanctioned, funded account on a proposal in its deposit or voting period
— accepted denoms, above the per-deposit floor — is accepted, whoever else is sanctioned (the
proposal's own targets included).  `NoProtectedSanction`: a proposal whose `MsgSanction` names a
protected account makes the gov hook panic for every depositor once a threshold is reached. -/
theorem unsanctioned_funded_deposit_succeeds (s : State) (who : Addr) (id : Nat) (amt : Coins) (p : Proposal)
    (hp : getProp s.props id = some p) (hact : p.active = true)
    (hv : validAmt amt = true) (hcv : coinsValid amt = true)
    (hden : acceptedDenoms s.cfg amt = true) (hr : ratioMet (depMinFor s.cfg p.expedited) amt = true)
    (hprot : NoProtectedSanction s.cfg p.msgs)
    (hu : isSanctionedAddr s.cfg s.st who = false) (hfunds : hasFunds s.ledger who amt = true) :
    ∃ s', applyOp s (.deposit who id amt) = .ok s' ∧ s'.ledger = s.ledger.move who s.cfg.govAcct amt := by
  obtain ⟨s', h1, h2, _⟩ := addDeposit_succeeds hp hact hden hr hprot hu hfunds
  exact ⟨s', by simp [applyOp, hv, hcv, h1], h2⟩

/-- A proposal submission by an unsanctioned, funded account (valid messages, initial deposit of
accepted denoms covering the initial floor and the per-deposit floor), from every reachable state. -/
theorem unsanctioned_funded_submit_succeeds (cfg : Cfg) (ops : List Op) (who : Addr) (msgs : List PMsg)
    (initial : Coins) (exp : Bool) :
    let s := run (init cfg) ops
    coinsValid initial = true → Coins.covers initial (initMinFor s.cfg exp) = true →
    acceptedDenoms s.cfg initial = true → validateMsgs msgs = .ok () →
    ratioMet (depMinFor s.cfg exp) initial = true → NoProtectedSanction s.cfg msgs →
    isSanctionedAddr s.cfg s.st who = false → hasFunds s.ledger who initial = true →
    ∃ s', applyOp s (.submit who msgs initial exp) = .ok s' ∧
      s'.ledger = s.ledger.move who s.cfg.govAcct initial ∧ s'.nextId = s.nextId + 1 := by
  intro s h1 h2 h3 h4 h5 h6 h7 h8
  exact submitProposal_succeeds (run_inv ops (inv_init cfg)).1 h1 h2 h3 h4 h5 h6 h7 h8

/-- A marker transfer out of an unsanctioned, funded account by an administrator entitled to it
(`transferAuth` accepted: its own coins, an authz grant of the owner, or a forced transfer). -/
theorem unsanctioned_funded_marker_transfer_succeeds (s s1 : State) (admin frm to : Addr) (d : Denom) (x : Int)
    (m : Marker) (hne : admin ≠ "" ∧ frm ≠ "" ∧ to ≠ "") (hx : 0 ≤ x) (hm : getMarkerByDenom s.cfg d = some m)
    (hperm : admin ∈ m.xfer ∨ admin ∈ m.force) (hdep : validateSendToMarker s.cfg to admin = true)
    (hauth : transferAuth s m admin frm d x = .ok s1) (hnb : to ∉ s.cfg.blocked)
    (hu : isSanctionedAddr s.cfg s.st frm = false) (hfunds : hasFunds s.ledger frm (oneCoin d x) = true) :
    applyOp s (.mxfer admin frm to d x) = .ok { s1 with ledger := s.ledger.move frm to (oneCoin d x) } := by
  obtain ⟨g, rfl⟩ := transferAuth_frame hauth
  have h0 : ¬(admin = "" ∨ frm = "" ∨ to = "" ∨ x < 0) := by
    rintro (h | h | h | h)
    · exact hne.1 h
    · exact hne.2.1 h
    · exact hne.2.2 h
    · omega
  have h1 : ¬(admin ∉ m.xfer ∧ admin ∉ m.force) := by
    rintro ⟨a1, a2⟩
    rcases hperm with h | h
    · exact a1 h
    · exact a2 h
  simp only [applyOp, h0, if_false, transferCoin, hm, h1, hdep, Bool.not_true, Bool.false_eq_true, hauth, hnb]
  exact sendCoins_succeeds (s := { s with grants := g }) hu hfunds

/-- Withdrawals out of an unsanctioned, funded marker account / market account. -/
theorem unsanctioned_funded_withdrawals_succeed (s : State) (admin to : Addr) (amt : Coins)
    (hne : admin ≠ "" ∧ to ≠ "") (hv : validAmt amt = true) (hcv : coinsValid amt = true)
    (hnb : to ∉ s.cfg.blocked) :
    (∀ d m, getMarkerByDenom s.cfg d = some m → admin ∈ m.withdraw → validateSendToMarker s.cfg to admin = true →
      isSanctionedAddr s.cfg s.st m.addr = false → hasFunds s.ledger m.addr amt = true →
      applyOp s (.mwd admin to d amt) = .ok { s with ledger := s.ledger.move m.addr to amt }) ∧
    (admin ∈ s.cfg.marketAdmins → isSanctionedAddr s.cfg s.st s.cfg.market = false →
      hasFunds s.ledger s.cfg.market amt = true →
      applyOp s (.mktwd admin to amt) = .ok { s with ledger := s.ledger.move s.cfg.market to amt }) := by
  have h0 : ¬(admin = "" ∨ to = "" ∨ (!(validAmt amt && coinsValid amt)) = true) := by
    rintro (h | h | h)
    · exact hne.1 h
    · exact hne.2 h
    · simp [hv, hcv] at h
  refine ⟨fun d m hm hw hdep hu hf => ?_, fun ha hu hf => ?_⟩
  · simp only [applyOp, h0, if_false, withdrawCoins, hm, hw, not_true_eq_false, hdep, Bool.not_true,
      Bool.false_eq_true, hnb]
    exact sendCoins_succeeds hu hf
  · simp only [applyOp, h0, if_false, withdrawMarketFunds, ha, not_true_eq_false, hnb]
    exact sendCoins_succeeds hu hf

/-- An order settlement between two unsanctioned, funded accounts. -/
theorem unsanctioned_funded_settlement_succeeds (s : State) (seller buyer : Addr) (assets price : Coins)
    (hne : seller ≠ "" ∧ buyer ≠ "" ∧ seller ≠ buyer) (hv : validAmt assets = true ∧ validAmt price = true)
    (hlen : assets.length = 1 ∧ price.length = 1) (hden : Coins.denoms assets ≠ Coins.denoms price)
    (hf : hasFunds s.ledger seller assets = true ∧ hasFunds s.ledger buyer price = true)
    (hu : isSanctionedAddr s.cfg s.st seller = false ∧ isSanctionedAddr s.cfg s.st buyer = false)
    (hnb : seller ∉ s.cfg.blocked ∧ buyer ∉ s.cfg.blocked) :
    applyOp s (.settle seller buyer assets price) =
      .ok { s with ledger := (s.ledger.move seller buyer assets).move buyer seller price } := by
  have h0 : ¬(seller = "" ∨ buyer = "" ∨ seller = buyer ∨ (!(validAmt assets && validAmt price)) = true ∨
      assets.length ≠ 1 ∨ price.length ≠ 1 ∨ Coins.denoms assets = Coins.denoms price) := by
    rintro (h | h | h | h | h | h | h)
    · exact hne.1 h
    · exact hne.2.1 h
    · exact hne.2.2 h
    · simp [hv.1, hv.2] at h
    · exact h hlen.1
    · exact h hlen.2
    · exact hden h
  have h1 : ¬(seller ∈ s.cfg.blocked ∨ buyer ∈ s.cfg.blocked) := by
    rintro (h | h)
    · exact hnb.1 h
    · exact hnb.2 h
  simp only [applyOp, h0, if_false, settleOrders, hf.1, hf.2, hu.1, hu.2, h1, Bool.not_true, Bool.false_eq_true,
    Bool.or_self]

/-- An exchange payment in which every side that pays something is unsanctioned and holds what it
pays (the target pays out of what it holds after the source's part arrived); a side that pays
nothing may be sanctioned. -/
theorem unsanctioned_funded_payment_succeeds (s : State) (src tgt : Addr) (sAmt tAmt : Coins)
    (hne : src ≠ "" ∧ tgt ≠ "") (hcv : coinsValid sAmt = true ∧ coinsValid tAmt = true)
    (hsome : ¬(sAmt.isEmpty = true ∧ tAmt.isEmpty = true))
    (hu : (sAmt.isEmpty = false → isSanctionedAddr s.cfg s.st src = false) ∧
      (tAmt.isEmpty = false → isSanctionedAddr s.cfg s.st tgt = false))
    (hf1 : hasFunds s.ledger src sAmt = true)
    (hf2 : hasFunds (if sAmt.isEmpty then s.ledger else s.ledger.move src tgt sAmt) tgt tAmt = true) :
    applyOp s (.pay src tgt sAmt tAmt) =
      .ok { s with ledger :=
        if tAmt.isEmpty then (if sAmt.isEmpty then s.ledger else s.ledger.move src tgt sAmt)
        else (if sAmt.isEmpty then s.ledger else s.ledger.move src tgt sAmt).move tgt src tAmt } := by
  have h0 : ¬(src = "" ∨ tgt = "" ∨ (!(coinsValid sAmt && coinsValid tAmt)) = true ∨
      (sAmt.isEmpty = true ∧ tAmt.isEmpty = true)) := by
    rintro (h | h | h | h)
    · exact hne.1 h
    · exact hne.2 h
    · simp [hcv.1, hcv.2] at h
    · exact hsome h
  simp only [applyOp, h0, if_false, acceptPayment, hf1, Bool.not_true, Bool.false_eq_true]
  cases hs : sAmt.isEmpty <;> cases ht : tAmt.isEmpty <;>
    simp only [hs, ht, sendIfAny, if_true, if_false, Bool.false_eq_true] at hf2 ⊢
  · rw [sendCoins_succeeds (hu.1 hs) hf1]
    exact sendCoins_succeeds (s := { s with ledger := s.ledger.move src tgt sAmt }) (hu.2 ht) hf2
  · rw [sendCoins_succeeds (hu.1 hs) hf1]
  · exact sendCoins_succeeds (hu.2 ht) hf2

/-! ### 5d. "although it can still receive funds"

`credit_to_sanctioned_succeeds` is one `SendCoins` to another account.  The other ways funds reach
a sanctioned account: as one of the outputs of a multi-send, as a depositor getting a gov deposit
back (proposal rejected / passed / expired: `refundAll`; cancelled: `chargeDeposits`), and as the
receiving side of a payment.  A credit that arrives in the same transaction as a debit of the
sanctioned account does NOT arrive: the transaction is refused as a whole. -/

/-- A multi-send by an unsanctioned, funded account succeeds whoever the outputs are, and each
output account other than the sender — sanctioned or not — is credited the amount once per
occurrence in the output list. -/
theorem multi_send_credits_sanctioned_outputs (s : State) (frm to : Addr) (tos : List Addr) (amt : Coins) (d : Denom)
    (hv : validAmt amt = true) (hne : tos ≠ []) (hu : isSanctionedAddr s.cfg s.st frm = false)
    (hf : hasFunds s.ledger frm (Coins.scale tos.length amt) = true) (hto : to ≠ frm) :
    ∃ s', applyOp s (.msend frm tos amt) = .ok s' ∧ s'.st = s.st ∧
      s'.ledger.bal to d = s.ledger.bal to d + (tos.count to : Int) * Coins.amountOf amt d := by
  refine ⟨_, (unsanctioned_funded_bank_routes_succeed s frm to tos amt hv hu).2 hne hf, rfl, ?_⟩
  exact foldl_move_bal hto d

/-- Gov deposits go back to sanctioned depositors: with the gov account protected, the refund of
a proposal's deposits (`RefundAndDeleteDeposits`) and the partial refund at cancellation
(`ChargeDeposit`) can fail only for lack of funds in the gov account — never because a depositor
is sanctioned — and when the refund goes through every depositor has exactly what its deposit
records hold (`Spec.owed`) more than before. -/
theorem refunds_reach_sanctioned_depositors (s : State) (hg : s.cfg.govAcct ∈ s.cfg.unsanctionable)
    (ds : List (Addr × Coins)) :
    (∀ e, refundAll s ds = .error e → e = .funds) ∧
    (∀ ch e, chargeDeposits s ch ds = .error e → e = .funds) ∧
    (∀ s' a d, refundAll s ds = .ok s' → a ≠ s.cfg.govAcct →
      s'.ledger.bal a d = s.ledger.bal a d + owed a d ds) :=
  ⟨fun _ h => refundAll_error hg h, fun _ _ h => chargeDeposits_error hg h,
    fun _ _ d h hne => refundAll_credit h hne d⟩

/-- A payment to a sanctioned account that asks nothing back is a pure credit and succeeds; a
payment or a settlement in which the sanctioned account also pays is refused as a whole — its
credit is rolled back with the refused debit (the state is exactly what it was). -/
theorem credit_with_refused_debit_is_rolled_back (s : State) (a other : Addr) (sAmt tAmt : Coins)
    (ha : isSanctionedAddr s.cfg s.st a = true) :
    (other ≠ "" → a ≠ "" → coinsValid sAmt = true → sAmt ≠ [] → isSanctionedAddr s.cfg s.st other = false →
      hasFunds s.ledger other sAmt = true →
      step s (.pay other a sAmt []) = { s with ledger := s.ledger.move other a sAmt }) ∧
    (tAmt ≠ [] → step s (.pay other a sAmt tAmt) = s) ∧
    (∀ assets price, step s (.settle a other assets price) = s ∧ step s (.settle other a assets price) = s) := by
  refine ⟨fun h1 h2 h3 h4 h5 h6 => ?_, fun ht => ?_, fun assets price => ?_⟩
  · have hs : sAmt.isEmpty = false := by cases sAmt <;> simp_all
    have := unsanctioned_funded_payment_succeeds s other a sAmt [] ⟨h1, h2⟩ ⟨h3, rfl⟩ (by simp [hs])
      ⟨fun _ => h5, fun h => by simp at h⟩ h6 (by simp [hasFunds, Coins.denoms])
    unfold step
    rw [this]
    simp [hs]
  · unfold step
    cases hop : applyOp s (.pay other a sAmt tAmt) with
    | error e => rfl
    | ok s' => exact absurd ((behalf_routes_refuse_sanctioned_debit s s' a ha).2.2.2.2.1 other sAmt tAmt hop) ht
  · constructor
    · unfold step
      cases hop : applyOp s (.settle a other assets price) with
      | error e => rfl
      | ok s' => exact absurd hop ((behalf_routes_refuse_sanctioned_debit s s' a ha).2.2.2.2.2 other assets price).1
    · unfold step
      cases hop : applyOp s (.settle other a assets price) with
      | error e => rfl
      | ok s' => exact absurd hop ((behalf_routes_refuse_sanctioned_debit s s' a ha).2.2.2.2.2 other assets price).2

/-! ### 6. key layout (x/sanction/keeper/keys.go)

The abstract store is keyed by `(addr, id)` and "latest" means greatest id. These theorems tie
that reading to the bytes: under one address prefix the keys of `CreateTemporaryKey` are
ordered (by `bytes.Compare`) exactly as their proposal ids, so the first element of the
reverse iterator of `getLatestTempEntry` is the entry with the greatest id; the address prefix
(length-prefixed) selects the entries of exactly that address, and the index prefix the entries
of exactly that proposal. -/

section Keys
open PvModel.SancKeys PvProofs.SancKeys

theorem temporaryKey_order (a : Bytes) (p q : Nat) (hp : p < 2 ^ 64) (hq : q < 2 ^ 64) :
    lexLt (temporaryKey a p) (temporaryKey a q) = true ↔ p < q := by
  unfold temporaryKey
  rw [lexLt_append_left]
  exact be_lt_iff 8 p q (by rw [pow64]; exact hp) (by rw [pow64]; exact hq)

theorem temporaryAddrPrefix_selects (a a' : Bytes) (p : Nat) :
    temporaryAddrPrefix a' <+: temporaryKey a p ↔ a' = a := by
  unfold temporaryKey temporaryAddrPrefix lengthPrefix
  constructor
  · intro h
    simp only [List.cons_append, List.cons_prefix_cons, true_and] at h
    obtain ⟨hl, hp⟩ := h
    have h2 : a <+: a ++ be8 p := List.prefix_append _ _
    have := List.prefix_of_prefix_length_le hp h2 (by omega)
    exact this.eq_of_length hl
  · rintro rfl
    exact List.prefix_append _ _

theorem temporaryKey_injective (a a' : Bytes) (p q : Nat) (hp : p < 2 ^ 64) (hq : q < 2 ^ 64)
    (h : temporaryKey a p = temporaryKey a' q) : a = a' ∧ p = q := by
  have h1 : temporaryAddrPrefix a <+: temporaryKey a' q := by
    rw [← h]; exact List.prefix_append _ _
  have ha := (temporaryAddrPrefix_selects a' a q).1 h1
  subst ha
  refine ⟨rfl, ?_⟩
  unfold temporaryKey at h
  exact be_injective 8 p q (by rw [pow64]; exact hp) (by rw [pow64]; exact hq) (List.append_cancel_left h)

theorem proposalIndexPrefix_selects (p p' : Nat) (a : Bytes) (hp : p < 2 ^ 64) (hp' : p' < 2 ^ 64) :
    proposalTempIndexPrefix p <+: proposalTempIndexKey p' a ↔ p = p' := by
  unfold proposalTempIndexKey proposalTempIndexPrefix
  constructor
  · intro h
    simp only [List.cons_append, List.cons_prefix_cons, true_and] at h
    have h2 : be8 p' <+: be8 p' ++ lengthPrefix a := List.prefix_append _ _
    have hl : (be8 p).length = (be8 p').length := by simp [be8, be_length]
    have := List.prefix_of_prefix_length_le h h2 (by omega)
    exact be_injective 8 p p' (by rw [pow64]; exact hp) (by rw [pow64]; exact hp') (this.eq_of_length hl)
  · rintro rfl
    exact List.prefix_append _ _

end Keys

/-! ### non-vacuity -/

/-- the default configuration with the gov account protected satisfies `CfgOK` -/
example : CfgOK witnessCfg := ⟨by decide, by decide, by decide⟩

/-- a reachable state with a live temporary sanction: the hypothesis of
`sanctioned_balance_nondecreasing` is satisfiable, and the debit is refused -/
example :
    let s := run (init witnessCfg) (witnessOps.take 3 ++ [.fund "B" [("stake", 50)]])
    isSanctionedAddr s.cfg s.st "B" = true ∧ s.ledger.bal "B" "stake" = 50 ∧
      (step s (.send "B" "A" [("stake", 5)])).ledger.bal "B" "stake" = 50 ∧
      (step s (.send "A" "B" [("stake", 5)])).ledger.bal "B" "stake" = 55 := by
  decide

/-- a history without cancellation in which a rejected proposal's entries are gone
(`no_temp_after_resolution_partial` / `no_temp_after_passed_rejected_failed` are not vacuous) -/
example :
    let ops : List Op := witnessOps.take 3 ++ [.deposit "A" 1 [("stake", 400)], .block 100, .block 0]
    let s := run (init witnessCfg) ops
    (∀ op ∈ ops, isCancel op = false) ∧ (s.props.map (·.status)) = [PStatus.rejected] ∧ s.st.temp = [] := by
  decide

/-- the answer of the model to an operation was `err:sanctioned` -/
def refusedAsSanctioned (r : R State) : Bool := match r with | .error .sanctioned => true | _ => false
/-- the model accepted the operation -/
def accepted (r : R State) : Bool := match r with | .ok _ => true | _ => false

/-- `passed_proposal_takes_effect` / `passed_proposal_takes_effect_block` are not vacuous: a
proposal with `MsgSanction [B, C]` then `MsgUnsanction [C]` whose deposit reached the immediate
thresholds (temporary entries exist, `C`'s says "unsanction"), voted yes; the block at the end of its
voting period makes it pass: `B` is sanctioned permanently, `C` is not, no temporary entry is left. -/
example :
    let msgs : List PMsg := [⟨true, true, ["B", "C"]⟩, ⟨false, true, ["C"]⟩]
    let ops : List Op :=
      [ .fund "A" [("stake", 5000)], .params [("stake", 500)] [("stake", 500)],
        .submit "A" msgs [("stake", 1000)] false, .vote 1 .yes, .block 100 ]
    let s := run (init witnessCfg) ops
    let s' := run (init witnessCfg) (ops ++ [.block 0])
    (s.props.map (·.status)) = [PStatus.voting] ∧ s.st.temp.length = 2 ∧ s.st.perm = [] ∧
      (s'.props.map (·.status)) = [PStatus.passed] ∧
      lastNaming "B" msgs = some true ∧ lastNaming "C" msgs = some false ∧
      s'.st.temp = [] ∧ isSanctionedAddr witnessCfg s'.st "B" = true ∧ isSanctionedAddr witnessCfg s'.st "C" = false := by
  decide

/-- the hypothesis of `sanctioned_refusal_names_sanctioned_debited` holds of the witness
configuration, and a refusal as sanctioned occurs (the sender `B` is the sanctioned debited account) -/
example :
    witnessCfg.govAcct ∈ witnessCfg.unsanctionable ∧
    (let s := run (init witnessCfg) (witnessOps.take 3 ++ [.fund "B" [("stake", 50)]])
     refusedAsSanctioned (applyOp s (.send "B" "A" [("stake", 5)])) = true ∧
       debited s.cfg (.send "B" "A" [("stake", 5)]) = ["B"] ∧ isSanctionedAddr s.cfg s.st "B" = true) := by
  decide

/-- the hypotheses of `unsanctioned_funded_deposit_succeeds` / `…_submit_succeeds` /
`…_bank_routes_succeed` hold in a state where somebody else (`B`) is sanctioned by the very
proposal the deposit goes to -/
example :
    let s := run (init witnessCfg) (witnessOps.take 3 ++ [.fund "D" [("stake", 500)]])
    let amt : Coins := [("stake", 200)]
    isSanctionedAddr s.cfg s.st "B" = true ∧ isSanctionedAddr s.cfg s.st "D" = false ∧
      (s.props.map (·.id)) = [1] ∧
      (∀ p ∈ s.props, p.active = true ∧ ratioMet (depMinFor s.cfg p.expedited) amt = true ∧
        ∀ m ∈ p.msgs, m.isSanction = true → ∀ x ∈ m.addrs, x ∉ s.cfg.unsanctionable) ∧
      validAmt amt = true ∧ coinsValid amt = true ∧ acceptedDenoms s.cfg amt = true ∧ hasFunds s.ledger "D" amt = true ∧
      onlyBond s.cfg amt = true ∧ hasFunds s.ledger "D" (Coins.scale 2 amt) = true ∧
      Coins.covers amt (initMinFor s.cfg false) = true ∧ (validateMsgs [⟨false, true, ["B"]⟩]).toBool = true ∧
      (step s (.deposit "D" 1 amt)).ledger.bal "D" "stake" = 300 ∧
      (step s (.submit "D" [⟨false, true, ["B"]⟩] amt false)).nextId = 3 := by
  decide

/-- "can still receive": `D` is sanctioned; it is an output of a multi-send (twice), the receiving
side of a payment that asks nothing back, and a depositor whose deposit comes back when the
proposal is rejected; a payment that asks something back from it is refused as a whole. -/
example :
    let ops : List Op :=
      [ .fund "A" [("stake", 5000)], .fund "D" [("stake", 500)],
        .submit "D" [⟨true, true, ["B"]⟩] [("stake", 300)] false, .msg ⟨true, true, ["D"]⟩ ]
    let s := run (init witnessCfg) ops
    isSanctionedAddr s.cfg s.st "D" = true ∧ s.ledger.bal "D" "stake" = 200 ∧
      owed "D" "stake" ((s.props.flatMap (·.deposits))) = 300 ∧
      (step s (.msend "A" ["D", "B", "D"] [("stake", 10)])).ledger.bal "D" "stake" = 220 ∧
      (step s (.pay "A" "D" [("stake", 10)] [])).ledger.bal "D" "stake" = 210 ∧
      (step s (.pay "A" "D" [("stake", 10)] [("stake", 1)])).ledger.bal "D" "stake" = 200 ∧
      (run s [.block 100, .block 0]).ledger.bal "D" "stake" = 500 := by
  decide

/-- two deposit denoms, a two-denom immediate threshold -/
def multiCfg : Cfg :=
  { unsanctionable := ["GOV"], minDeposit := [("hash", 400), ("stake", 1000)], expMinDeposit := [("hash", 800), ("stake", 2000)],
    initMin := [("hash", 40), ("stake", 100)], initMinExp := [("hash", 80), ("stake", 200)],
    depMin := [("hash", 4), ("stake", 10)], depMinExp := [("hash", 8), ("stake", 20)] }

/-- `new_temp_entry_needs_reaching_deposit` / `accepted_deposit_creates_reached_entries` are not
vacuous, on the boundary the per-denom rule draws: with the immediate min deposit
`500hash,1000stake` a total of `40hash,5000stake` (far above in one denom, short in the
other) creates nothing; completing the other denom to exactly 500 creates the entry. -/
example :
    let ops : List Op :=
      [ .fund "A" [("hash", 1000), ("stake", 9000)],
        .params [("hash", 500), ("stake", 1000)] [],
        .submit "A" [⟨true, true, ["B"]⟩] [("hash", 40), ("stake", 5000)] false ]
    let s := run (init multiCfg) ops
    s.st.temp = [] ∧ (s.props.map (·.id)) = [1] ∧
      (step s (.deposit "A" 1 [("hash", 459)])).st.temp = [] ∧
      (step s (.deposit "A" 1 [("hash", 460)])).st.temp = [⟨"B", 1, true⟩] ∧
      isSanctionedAddr multiCfg (step s (.deposit "A" 1 [("hash", 460)])).st "B" = true := by
  decide

/-- a restricted marker whose administrator `B` holds transfer and force-transfer access -/
def markerCfg : Cfg :=
  { unsanctionable := ["GOV"],
    markers := [{ denom := "rcoin", addr := "RC", allowForce := true, xfer := ["A", "B"], force := ["B"], withdraw := ["A"], deposit := [] }] }

/-- `behalf_routes_refuse_sanctioned_debit` / `marker_transfer_source_not_sanctioned` are not
vacuous: `C` lets administrator `A` move its restricted coins (authz grant) and `A` does so; once
`C` is sanctioned neither `A` (with the grant still in force) nor `B` (forced transfer) can take
them — to their own account or to anybody else — while coins can still be brought to `C`. -/
example :
    let ops : List Op :=
      [ .fund "C" [("rcoin", 100)], .fund "B" [("rcoin", 100)], .grant "C" "A" [("rcoin", 60)], .mxfer "A" "C" "A" "rcoin" 10 ]
    let s := run (init markerCfg) ops
    let t := step s (.msg ⟨true, true, ["C"]⟩)
    s.ledger.bal "C" "rcoin" = 90 ∧ s.ledger.bal "A" "rcoin" = 10 ∧
      (s.grants.map fun g => (g.grantee, g.granter, Coins.amountOf g.limit "rcoin")) = [("A", "C", 50)] ∧
      isSanctionedAddr t.cfg t.st "C" = true ∧
      (step t (.mxfer "A" "C" "A" "rcoin" 10)).ledger.bal "C" "rcoin" = 90 ∧
      (step t (.mxfer "A" "C" "D" "rcoin" 10)).ledger.bal "C" "rcoin" = 90 ∧
      (step t (.mxfer "B" "C" "B" "rcoin" 10)).ledger.bal "C" "rcoin" = 90 ∧
      (step s (.mxfer "B" "C" "B" "rcoin" 10)).ledger.bal "C" "rcoin" = 80 ∧
      (step t (.mxfer "B" "B" "C" "rcoin" 10)).ledger.bal "C" "rcoin" = 100 := by
  decide

/-- payments and settlements: refused when the paying side is sanctioned, accepted otherwise -/
example :
    let ops : List Op := [ .fund "A" [("stake", 100)], .fund "B" [("acoin", 100)], .msg ⟨true, true, ["A"]⟩ ]
    let s := run (init markerCfg) ops
    (step s (.pay "A" "B" [("stake", 5)] [])).ledger.bal "A" "stake" = 100 ∧
      (step s (.pay "B" "A" [("acoin", 5)] [])).ledger.bal "A" "acoin" = 5 ∧
      (step s (.pay "B" "A" [("acoin", 5)] [("stake", 1)])).ledger.bal "A" "stake" = 100 ∧
      (step s (.settle "A" "B" [("stake", 5)] [("acoin", 7)])).ledger.bal "A" "stake" = 100 ∧
      (step (step s (.msg ⟨false, true, ["A"]⟩)) (.settle "A" "B" [("stake", 5)] [("acoin", 7)])).ledger.bal "A" "stake" = 95 := by
  decide

/-- The second disjunct of `sanctioned_refusal_names_sanctioned_debited` is needed: a marker transfer
of amount zero out of the sanctioned account `C` is answered `err:sanctioned` although it debits
nobody (`debited` is empty); the same transfer out of the unsanctioned `B` is accepted.  (Replayed
on the real app: corpus/C06/sanc.zero_transfer.ops.) -/
theorem zero_transfer_from_sanctioned :
    let s := run (init markerCfg) [.fund "C" [("rcoin", 100)], .fund "B" [("rcoin", 100)], .msg ⟨true, true, ["C"]⟩]
    refusedAsSanctioned (applyOp s (.mxfer "B" "C" "B" "rcoin" 0)) = true ∧
      debited s.cfg (.mxfer "B" "C" "B" "rcoin" 0) = [] ∧
      accepted (applyOp s (.mxfer "B" "B" "C" "rcoin" 0)) = true := by
  decide

/-- the hypotheses of the on-behalf success theorems hold: administrator `B` (force-transfer access)
takes coins of the unsanctioned `C`; `A` withdraws from the marker account; a payment and a
settlement between unsanctioned accounts -/
example :
    let s := run (init markerCfg)
      [.fund "C" [("rcoin", 100)], .fund "RC" [("rcoin", 100)], .fund "A" [("stake", 100)], .msg ⟨true, true, ["D"]⟩]
    (s.cfg.markers.map (·.denom)) = ["rcoin"] ∧
      (∀ m ∈ s.cfg.markers, "B" ∈ m.force ∧ "A" ∈ m.withdraw ∧
        accepted (transferAuth s m "B" "C" "rcoin" 10) = true ∧ isSanctionedAddr s.cfg s.st m.addr = false ∧
        hasFunds s.ledger m.addr [("rcoin", 5)] = true) ∧
      validateSendToMarker s.cfg "B" "B" = true ∧ validateSendToMarker s.cfg "A" "A" = true ∧
      isSanctionedAddr s.cfg s.st "C" = false ∧ isSanctionedAddr s.cfg s.st "D" = true ∧
      hasFunds s.ledger "C" (oneCoin "rcoin" 10) = true ∧
      (step s (.mxfer "B" "C" "B" "rcoin" 10)).ledger.bal "B" "rcoin" = 10 ∧
      (step s (.mwd "A" "A" "rcoin" [("rcoin", 5)])).ledger.bal "A" "rcoin" = 5 ∧
      (step s (.pay "A" "C" [("stake", 5)] [("rcoin", 7)])).ledger.bal "A" "rcoin" = 7 ∧
      (step s (.settle "C" "A" [("rcoin", 5)] [("stake", 7)])).ledger.bal "C" "stake" = 7 := by
  decide

end PvProofs.C06
