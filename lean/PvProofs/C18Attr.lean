/-
C18 (attribute module part) — the attribute store across genesis export and import.

Over the C16 model of x/attribute (`PvModel.Attr`, tied to the Go module by the `attr` stream, op line
`regen <t>`) with the genesis functions of x/attribute/keeper/genesis.go:
`exportGenesis` (`ExportGenesis`: the attribute RECORDS, expired ones included; neither the lookup
counters nor the expiration queue are exported), `importAttribute` (keeper.go:501: skip what is
expired at the block time, else store the record, increment the name→address counter, queue the
STORED expiration) and `initGenesis` (`GenesisState.ValidateBasic`, then `importAttribute` per record).
`regenesis s t` = export the store of `s`, initialise a fresh chain from it at block time `t`.

For EVERY history `ops` from an empty attribute store and every `t`:
 * the chain accepts its own export (`genesis_accepts_own_export`: every stored attribute passes
   `ValidateBasic` — `stored_attributes_valid`);
 * the re-initialised store holds exactly the exported records that are not expired at `t`
   (`regenesis_records`) — ALL the records when `t` is the block time of the export and no block of
   the history hit the sweep's cap (`regenesis_same_records`); a record the capped sweep had not
   reached yet is exported but silently dropped by the import (`backlog_dropped_by_import`);
 * its lookup counters EQUAL the record counts (`regenesis_counters_exact`) although the original's
   may exceed them (`PvProofs.C16.counter_can_exceed_records`), its expiration queue is exactly the
   stored expirations of the stored attributes — no stale entry (`regenesis_queue_exact`);
 * it satisfies the four store invariants `Inv` (`regenesis_inv`), so every C16 theorem stated from
   an `Inv` state holds of the continued chain (`continuation_after_round_trip`).
So the round trip is NOT the identity on the module's store: records are reproduced, the derived
indices are normalised.  `round_trip_normalises_lookup_and_queue` shows a reachable state whose
`AccountsByAttribute` answer and expiration queue differ before and after.
-/
import PvProofs.C16

set_option linter.unusedSimpArgs false
set_option linter.unusedVariables false

namespace PvProofs.C18Attr
open PvModel.Attr PvProofs.Lemmas.AttrStore PvProofs.Lemmas.AttrInv PvProofs.Lemmas.AttrStep
  PvProofs.Lemmas.AttrExact PvProofs.Lemmas.AttrGenesis

/-! ## The chain accepts its own export -/

theorem run_valid (ops : List Op) : ∀ s : State, Inv s → Valid s → Valid (run s ops) := by
  induction ops with
  | nil => intro s _ h; exact h
  | cons op rest ih =>
    intro s hi hv
    refine ih (apply s op) (apply_inv op hi) ?_
    unfold apply
    cases h : step s op with
    | error e => exact hv
    | ok s' => exact step_valid hv h (PvProofs.C16.writes_are_what_the_owner_signed hi h)

/-- After every history every stored attribute passes `Attribute.ValidateBasic`. -/
theorem stored_attributes_valid (s0 : State) (h0 : Init s0) (ops : List Op) (r : Attribute)
    (hr : r ∈ (run s0 ops).recs) : validateBasic r = true :=
  run_valid ops s0 (init_inv h0) (by intro r hr; rw [h0.1] at hr; cases hr) r hr

/-- `InitGenesis` does not panic on the export of any reachable state, at any block time. -/
theorem genesis_accepts_own_export (s0 : State) (h0 : Init s0) (ops : List Op) (t : Nat) :
    ∃ s', regenesis (run s0 ops) t = .ok s' := by
  have hv : genesisValid (exportGenesis (run s0 ops)) = true := by
    unfold genesisValid exportGenesis
    rw [List.all_eq_true]
    exact stored_attributes_valid s0 h0 ops
  refine ⟨(exportGenesis (run s0 ops)).foldl importAttribute
    { now := t, accts := (run s0 ops).accts, names := (run s0 ops).names }, ?_⟩
  unfold regenesis initGenesis
  simp [hv]

/-! ## What the re-initialised store is -/

theorem regenesis_ok {s s' : State} {t : Nat} (h : regenesis s t = .ok s') :
    genesisValid s.recs = true ∧
      s' = s.recs.foldl importAttribute { now := t, accts := s.accts, names := s.names } := by
  unfold regenesis initGenesis exportGenesis at h
  split at h
  · cases h
  · rename_i hv
    injection h with h
    exact ⟨by simpa using hv, h.symm⟩

/-- From ANY state with distinct record keys: the re-initialised store is exact (distinct keys,
counters = record counts, queue = stored expirations) and holds the records not expired at `t`;
block time `t`, names and accounts as given. -/
theorem regenesis_core {s s' : State} {t : Nat} (hk : KeysUnique s.recs) (h : regenesis s t = .ok s') :
    Exact s' ∧ (∀ r, r ∈ s'.recs ↔ (r ∈ s.recs ∧ isExpired t r = false)) ∧
      s'.now = t ∧ s'.names = s.names ∧ s'.accts = s.accts := by
  obtain ⟨_, rfl⟩ := regenesis_ok h
  obtain ⟨g1, g2, g3, g4, g5⟩ := importAll_exact s.recs
    { now := t, accts := s.accts, names := s.names } hk (by intro r hr; cases hr)
    (empty_exact t s.accts s.names)
  refine ⟨g1, ?_, g3, g4, g5⟩
  intro r
  rw [g2 r]
  simp

/-- The re-initialised store holds exactly the exported records that are not expired at the block
time of the import (`importAttribute` skips the others without an error). -/
theorem regenesis_records {s s' : State} {t : Nat} (hi : Inv s) (h : regenesis s t = .ok s')
    (r : Attribute) : r ∈ s'.recs ↔ (r ∈ s.recs ∧ isExpired t r = false) :=
  (regenesis_core hi.keys h).2.1 r

/-- Its counters EQUAL the record counts, for every (name, account). -/
theorem regenesis_counters_exact {s s' : State} {t : Nat} (hi : Inv s) (h : regenesis s t = .ok s')
    (name addr : String) : getCnt s' name addr = count s' name addr :=
  ((regenesis_core hi.keys h).1.cnt name addr).symm

/-- Its expiration queue is exactly the stored expirations of the stored attributes: every live
entry is there, no stale one. -/
theorem regenesis_queue_exact {s s' : State} {t : Nat} (hi : Inv s) (h : regenesis s t = .ok s') :
    (∀ q : Nat × Key, q ∈ s'.queue ↔ ∃ r ∈ s'.recs, r.key = q.2 ∧ r.exp = some q.1) ∧
      noStale s' = true :=
  ⟨(regenesis_core hi.keys h).1.queue, noStale_of_exact (regenesis_core hi.keys h).1⟩

/-- It satisfies the four store invariants. -/
theorem regenesis_inv {s s' : State} {t : Nat} (hi : Inv s) (h : regenesis s t = .ok s') : Inv s' := by
  obtain ⟨g1, g2, _, g4, _⟩ := regenesis_core hi.keys h
  refine exact_inv g1 ?_
  intro r hr
  rw [nameExists_congr g4]
  exact hi.bound r ((g2 r).mp hr).1

example :
    let s0 : State := { now := 100, accts := ["A"], names := [("kyc.vf", "A")] }
    let s := run s0 [.add "A" ⟨"B", "kyc.vf", "1", .string, some 110⟩, .add "A" ⟨"B", "kyc.vf", "1", .int, some 200⟩,
      .add "A" ⟨"B", "kyc.vf", "2", .int, none⟩]
    Inv s ∧ (∃ s', regenesis s 100 = .ok s' ∧ s'.recs.length = 2) :=
  ⟨PvProofs.C16.invariants_hold _ (by decide) _, _, rfl, by decide⟩

/-! ## For every history -/

/-- The genesis round trip of the attribute module after ANY history, at any import time `t`:
accepted; records = the exported ones not expired at `t`; counters = record counts; queue = the
stored expirations (nothing stale); store invariants; block time, names, accounts as given. -/
theorem genesis_round_trip (s0 : State) (h0 : Init s0) (ops : List Op) (t : Nat) :
    ∃ s', regenesis (run s0 ops) t = .ok s' ∧
      (∀ r, r ∈ s'.recs ↔ (r ∈ (run s0 ops).recs ∧ isExpired t r = false)) ∧
      (∀ name addr, getCnt s' name addr = count s' name addr) ∧
      (∀ q : Nat × Key, q ∈ s'.queue ↔ ∃ r ∈ s'.recs, r.key = q.2 ∧ r.exp = some q.1) ∧
      noStale s' = true ∧ Inv s' ∧
      s'.now = t ∧ s'.names = (run s0 ops).names ∧ s'.accts = (run s0 ops).accts := by
  obtain ⟨s', h⟩ := genesis_accepts_own_export s0 h0 ops t
  have hi := PvProofs.C16.invariants_hold s0 h0 ops
  obtain ⟨_, _, g3, g4, g5⟩ := regenesis_core hi.keys h
  exact ⟨s', h, regenesis_records hi h, regenesis_counters_exact hi h, (regenesis_queue_exact hi h).1,
    (regenesis_queue_exact hi h).2, regenesis_inv hi h, g3, g4, g5⟩

/-- Same records: importing at the block time of the export, after a history in which no block hit
the sweep's cap (so nothing stored is expired, `no_stored_expiration_before_block_time_partial`),
reproduces every record. -/
theorem regenesis_same_records (s0 : State) (h0 : Init s0) (ops : List Op)
    (hcap : underCapRun s0 ops = true) (s' : State)
    (h : regenesis (run s0 ops) (run s0 ops).now = .ok s') (r : Attribute) :
    r ∈ s'.recs ↔ r ∈ (run s0 ops).recs := by
  rw [regenesis_records (PvProofs.C16.invariants_hold s0 h0 ops) h]
  constructor
  · exact fun hx => hx.1
  · intro hr
    refine ⟨hr, ?_⟩
    unfold isExpired
    cases he : r.exp with
    | none => rfl
    | some e =>
      have := PvProofs.C16.no_stored_expiration_before_block_time_partial s0 h0 ops hcap r hr e he
      simp only [decide_eq_false_iff_not, Nat.not_lt]
      exact this

example :
    let s0 : State := { now := 100, accts := ["A"], names := [("kyc.vf", "A")] }
    let ops : List Op := [.add "A" ⟨"B", "kyc.vf", "1", .string, some 105⟩, .add "A" ⟨"B", "kyc.vf", "2", .int, some 120⟩,
      .beginBlock 111]
    Init s0 ∧ underCapRun s0 ops = true ∧
      ∃ s', regenesis (run s0 ops) (run s0 ops).now = .ok s' ∧ s'.recs = [⟨"B", "kyc.vf", "2", .int, some 120⟩] :=
  ⟨by decide, by decide, _, rfl, by decide⟩

/-- Where the records are NOT all reproduced: a record the capped sweep has not reached yet (here:
`Keeper.DeleteExpiredAttributes` with limit 1 over two expired attributes) is exported, passes
`GenesisState.ValidateBasic`, and is dropped by `importAttribute` without an error. -/
theorem backlog_dropped_by_import :
    let s0 : State := { now := 100, accts := ["A"], names := [("kyc.vf", "A")] }
    let s := run s0 [.add "A" ⟨"B", "kyc.vf", "1", .string, some 105⟩, .add "A" ⟨"B", "kyc.vf", "2", .string, some 106⟩]
    let s1 := deleteExpiredAttributes { s with now := 111 } 1
    exportGenesis s1 = [⟨"B", "kyc.vf", "2", .string, some 106⟩] ∧
      ∃ s', regenesis s1 111 = .ok s' ∧ s'.recs = [] ∧ s'.cnt = [] ∧ s'.queue = [] :=
  ⟨by decide, _, rfl, by decide, by decide, by decide⟩

/-- The round trip is not the identity on the store: in this reachable state (an identical
attribute re-added, then deleted; another one re-added with a later expiration) the lookup lists an
account without attributes and the queue holds a stale entry; after export + import the lookup is
empty for that name/account and the queue has only the live entry — the records are the same. -/
theorem round_trip_normalises_lookup_and_queue :
    let s0 : State := { now := 100, accts := ["A"], names := [("kyc.vf", "A"), ("aml.vf", "A")] }
    let s := run s0 [.add "A" ⟨"B", "kyc.vf", "1", .string, none⟩, .add "A" ⟨"B", "kyc.vf", "1", .int, none⟩,
      .delete "A" "B" "kyc.vf",
      .add "A" ⟨"C", "aml.vf", "7", .int, some 110⟩, .add "A" ⟨"C", "aml.vf", "7", .int, some 200⟩]
    s.recs = [⟨"C", "aml.vf", "7", .int, some 200⟩] ∧
      accountsByAttribute s "kyc.vf" = ["B"] ∧ getCnt s "aml.vf" "C" = 2 ∧
      s.queue = [(200, ("C", "aml.vf", "7")), (110, ("C", "aml.vf", "7"))] ∧
      ∃ s', regenesis s 100 = .ok s' ∧ s'.recs = s.recs ∧
        accountsByAttribute s' "kyc.vf" = [] ∧ getCnt s' "aml.vf" "C" = 1 ∧
        s'.queue = [(200, ("C", "aml.vf", "7"))] :=
  ⟨by decide, by decide, by decide, by decide, _, rfl, by decide, by decide, by decide, by decide⟩

/-! ## The chain continues: C16 after a round trip -/

/-- Every clause of C16 holds of every message executed on the re-initialised chain (and, with
`step_inv`, of every later one): the C16 theorems need `Inv` only. -/
theorem continuation_after_round_trip (s0 : State) (h0 : Init s0) (ops : List Op) (t : Nat) (s1 : State)
    (h : regenesis (run s0 ops) t = .ok s1) (more : List Op) (op : Op) (s' : State)
    (hs : step (run s1 more) op = .ok s') :
    Inv (run s1 more) ∧ writerIsOwner (run s1 more) op = true ∧ lookupComplete s' = true ∧
      appearancesJustified (run s1 more) op s' = true ∧ disappearancesJustified (run s1 more) op s' = true := by
  have hi := run_inv more s1 (regenesis_inv (PvProofs.C16.invariants_hold s0 h0 ops) h)
  exact ⟨hi, PvProofs.C16.only_name_owner_writes_inv hi hs,
    PvProofs.C16.lookupComplete_of_inv (step_inv hi hs),
    PvProofs.C16.writes_are_what_the_owner_signed hi hs, PvProofs.C16.disappears_only_if_inv hi hs⟩

/-! ## The checker of the `regen` line is these conclusions -/

/-- On the model's own round trip from a state satisfying the store invariants the checker that
`bin/check` runs on the implementation's dumps before / after a `regen` line answers `ok`. -/
theorem verdictGenesis_ok {s s' : State} {t : Nat} (hi : Inv s) (h : regenesis s t = .ok s') :
    verdictGenesis s t true s' = "ok" := by
  obtain ⟨g1, g2, _, _, _⟩ := regenesis_core hi.keys h
  have hi' := regenesis_inv hi h
  have e1 : s.recs.all (fun r => isExpired t r || s'.recs.contains r) = true := by
    rw [List.all_eq_true]
    intro r hr
    cases hx : isExpired t r with
    | true => rfl
    | false => simp [List.contains_iff_mem, (g2 r).mpr ⟨hr, hx⟩]
  have e2 : s'.recs.all (fun r => s.recs.contains r && !isExpired t r) = true := by
    rw [List.all_eq_true]
    intro r hr
    obtain ⟨h1, h2⟩ := (g2 r).mp hr
    simp [List.contains_iff_mem, h1, h2]
  have e3 := PvProofs.C16.lookupComplete_of_inv hi'
  have e4 : lookupOnlyHolders s' = true := by
    unfold lookupOnlyHolders
    rw [List.all_eq_true]
    intro p _
    simp [g1.cnt p.1.1 p.1.2]
  have e5 := noStale_of_exact g1
  have e6 : queueComplete s' = true := by
    unfold queueComplete
    rw [List.all_eq_true]
    intro r hr
    cases he : r.exp with
    | none => rfl
    | some e => simpa [List.contains_iff_mem] using hi'.queueComplete r hr e he
  unfold verdictGenesis
  simp only [e1, e2, e3, e4, e5, e6, Bool.not_true, Bool.false_eq_true, if_false]

/-- A refusal of the chain's own export is reported whenever every exported record is valid — which
is the case after every history (`stored_attributes_valid`). -/
theorem verdictGenesis_refusal_reported (s0 : State) (h0 : Init s0) (ops : List Op) (t : Nat) (s' : State) :
    verdictGenesis (run s0 ops) t false s' = "fail:genesis:own_export_refused" := by
  have hv : genesisValid (exportGenesis (run s0 ops)) = true := by
    unfold genesisValid exportGenesis
    rw [List.all_eq_true]
    exact stored_attributes_valid s0 h0 ops
  unfold verdictGenesis
  simp [hv]

end PvProofs.C18Attr
