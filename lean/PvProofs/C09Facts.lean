/-
C09 — facts regenerated from x/metadata/keeper on every run (tools/extract/scopetoken.go),
checked against hand-written expectations by `decide`.  They tie the model's claim "the only
metadata code that moves a scope token is SetScopeValueOwner(s), reached only from the four
messages of the model after their signer validation" to the source: a new bank call, a new
caller, a handler that stops passing the validated transfer agents, or a SetScope caller that
could carry a value owner, changes the generated file and breaks a theorem here.
-/
import Generated.ScopeToken
import Generated.DenomRegex

namespace PvProofs.C09Facts
open PvProofs.Facts Generated.ScopeToken

/-- bank keeper methods that only read -/
def readOnly : List String := ["DenomOwner", "BlockedAddr", "GetScopesForValueOwner"]

/-- **only_two_functions_touch_balances**: every bank call of the metadata keeper that is not a
read is Mint/Send/Burn inside `SetScopeValueOwner`, or Send inside `SetScopeValueOwners`. -/
theorem only_two_functions_touch_balances :
    ∀ c ∈ bankCalls, c.method ∈ readOnly ∨
      (c.file = "scope.go" ∧ c.fn = "SetScopeValueOwner" ∧ c.method ∈ ["MintCoins", "SendCoins", "BurnCoins"]) ∨
      (c.file = "scope.go" ∧ c.fn = "SetScopeValueOwners" ∧ c.method = "SendCoins") := by
  decide

/-- the exact list of bank calls (anything new must be looked at) -/
theorem bank_calls_expected : bankCalls = [
    ⟨"msg_server.go", "MigrateValueOwner", "GetScopesForValueOwner"⟩,
    ⟨"query_server.go", "ValueOwnership", "GetScopesForValueOwner"⟩,
    ⟨"scope.go", "GetScopeValueOwner", "DenomOwner"⟩,
    ⟨"scope.go", "SetScopeValueOwner", "BlockedAddr"⟩,
    ⟨"scope.go", "SetScopeValueOwner", "DenomOwner"⟩,
    ⟨"scope.go", "SetScopeValueOwner", "MintCoins"⟩,
    ⟨"scope.go", "SetScopeValueOwner", "SendCoins"⟩,
    ⟨"scope.go", "SetScopeValueOwner", "BurnCoins"⟩,
    ⟨"scope.go", "SetScopeValueOwners", "BlockedAddr"⟩,
    ⟨"scope.go", "SetScopeValueOwners", "SendCoins"⟩] := by
  decide

/-- the signer validations whose first result is the transfer-agent list -/
def validations : List String := ["ValidateWriteScope", "ValidateDeleteScope", "ValidateUpdateValueOwners"]

/-- **msg_handlers_validate_before_moving**: every msg-server call that can reach
`SetScopeValueOwner(s)` either hands the bank the transfer agents returned by the value-owner
signer validation, or is a `SetScope` of a scope read with `GetScope` — whose value-owner field is
always empty, so `SetScope` does not touch the token (scope.go:130). -/
theorem msg_handlers_validate_before_moving :
    ∀ c ∈ setterCalls, c.file = "msg_server.go" →
      (c.agents ≠ "" ∧ c.agentsFrom ∈ validations) ∨
      (c.callee = "SetScope" ∧ c.agents = "" ∧ c.scopeFrom = "GetScope") := by
  decide

theorem get_scope_clears_value_owner : getScopeClearsValueOwner = true := by decide

/-- **token_setter_callers_expected**: the complete list of callers — the four messages of the
model, the four owner/data-access messages (no value owner), genesis import, the v4 migration
and the two internal calls. -/
theorem token_setter_callers_expected : setterCalls = [
    ⟨"genesis.go", "InitGenesis", "SetScope", "", "", "param"⟩,
    ⟨"migrations_v4.go", "migrateValueOwnerToBank", "SetScopeValueOwner", "", "", ""⟩,
    ⟨"msg_server.go", "WriteScope", "SetScope", "transferAgents", "ValidateWriteScope", "msg"⟩,
    ⟨"msg_server.go", "DeleteScope", "RemoveScope", "transferAgents", "ValidateDeleteScope", ""⟩,
    ⟨"msg_server.go", "AddScopeDataAccess", "SetScope", "", "", "GetScope"⟩,
    ⟨"msg_server.go", "DeleteScopeDataAccess", "SetScope", "", "", "GetScope"⟩,
    ⟨"msg_server.go", "AddScopeOwner", "SetScope", "", "", "GetScope"⟩,
    ⟨"msg_server.go", "DeleteScopeOwner", "SetScope", "", "", "GetScope"⟩,
    ⟨"msg_server.go", "UpdateValueOwners", "SetScopeValueOwners", "signers", "ValidateUpdateValueOwners", ""⟩,
    ⟨"msg_server.go", "MigrateValueOwner", "SetScopeValueOwners", "signers", "ValidateUpdateValueOwners", ""⟩,
    ⟨"scope.go", "SetScope", "SetScopeValueOwner", "", "", ""⟩,
    ⟨"scope.go", "RemoveScope", "SetScopeValueOwner", "", "", ""⟩] := by
  decide

/-! ### The unrestricted-denom test (tools/extract/denomregex.go)

`PvModel.DenomRegex.unrestrictedDenomOk` is a hand-written reading of ONE expression,
`^[a-zA-Z][a-zA-Z0-9\-\.]{2,83}$`.  The two theorems below pin the two texts that expression is put
together from in the source; if either changes (another default class or length, an anchor dropped
or moved) the model's reading no longer speaks about the code and the check must stop. -/

/-- **unrestricted_denom_regex_expected**: the constant `DefaultUnrestrictedDenomRegex`
(x/marker/types/params.go:16) is the expression the model reads. -/
theorem unrestricted_denom_regex_expected :
    Generated.DenomRegex.defaultUnrestrictedDenomRegex = "[a-zA-Z][a-zA-Z0-9\\-\\.]{2,83}" := by
  decide

/-- **validate_denom_anchored_both_ends**: the only `fmt.Sprintf` in
`Keeper.ValidateUnrestictedDenom` (x/marker/keeper/params.go:60) wraps the expression in BOTH
anchors, so `MatchString` is a match of the whole denom. -/
theorem validate_denom_anchored_both_ends :
    Generated.DenomRegex.sprintfFormats = ["^%s$"] := by
  decide

end PvProofs.C09Facts
