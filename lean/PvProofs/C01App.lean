/-
C01 — **soundness of the keeper-level checker** (`acceptedViolation` / `rejectedViolation`,
`PvModel/SettleAppSpec.lean`): on the model's own dumps it never fires.

`dumpOf accts s` is the model's dump of a keeper state (what the `settleapp` driver prints with
`showDump` and reads back with `parseDump?`: balances of the involved accounts, the market account `MKT`
and the fee collector `FEE`; the open orders; what is on hold per involved account).  For every state
satisfying the store invariant (`history_invariant`: every state of every history) and every message:

* a **rejected** message: `rejectedViolation (dumpOf s) (dumpOf s') = none` (`rejected_checker_sound`);
* an **accepted** `MsgMarketSettle` / `MsgFillBids` / `MsgFillAsks`: `acceptedViolation … = none`
  (`settle_app_checker_sound`, `fillBids_app_checker_sound`, `fillAsks_app_checker_sound`) — every
  clause of the checker is a consequence of `settle_store_post` / `fillBids_store_post` /
  `fillAsks_store_post`, `closeSettlement_deltas` / `fillBids_deltas` / `fillAsks_deltas`, `split_exact`
  and the fee theorems.

The hypotheses are the domain the checker is written for, and each is needed (see the notes at the
theorems): the dump covers every order owner and the sender (`accts`), `MKT`/`FEE` are not users, the
market's seller ratio is one the exchange admits (`SellerRatioOk`: fee in the price denom, `0 ≤ fee ≤
price`), and — for the user fills, whose sender the checker represents by ONE virtual order in the
denoms of the first named order — the market is single-denom (`SingleDenom`).
-/
import PvProofs.C01AppStore
import PvProofs.C01AppMoneyA
import PvProofs.C01AppMoneyB
import PvProofs.C01AppSettle
import PvProofs.C01AppFillBids
import PvProofs.C01AppFillAsks

namespace PvProofs.C01
open PvModel PvModel.Settle PvModel.Coins PvModel.Ledger PvProofs.Settle

/-! ## Rejected messages -/

/-- **`rejectedViolation` is sound**: whatever the message and wherever it fails, the model's dump after
a rejected message is the dump before it (balances, orders, holds). -/
theorem rejected_checker_sound (accts : List Addr) (m c : Addr) (s : KState) (op : KOp)
    (e : KErr) (hrej : (match op with
      | .create o => s.createOrder o
      | .settle a b ep => s.msgMarketSettle m c a b ep
      | .fillBids seller ids ta flat => s.msgFillBids m c seller ids ta flat
      | .fillAsks buyer ids tp fees => s.msgFillAsks m c buyer ids tp fees : Except KErr KState) = .error e) :
    rejectedViolation (dumpOf accts s) (dumpOf accts (s.apply m c op)) = none := by
  rw [(rejected_moves_nothing m c s op).1 e hrej]
  simp [rejectedViolation]

/-- non-vacuity: the under-funded example settlement of `C01Deep` is rejected -/
example : ∃ e, exPoor.msgMarketSettle "mkt" "feecol" [1, 2] [11, 12, 13] true = .error e :=
  ⟨.funds, by decide⟩

/-! ## Accepted messages -/

/-- all clauses from a store context, a money context and the parts equation -/
theorem accepted_sound_of {s s' : KState} {accts : List Addr} {ids : List Nat} {os : List Order}
    {left : Option Order} {virt : Option Order} {parts : List Order}
    (C : StoreCtx s s' ids os left) (ctx : MoneyCtx accts s s' s.ratio s.splitOf parts)
    (hsup : ∀ d, supply ctx.L d = 0)
    (hparts : cParts ids virt (dumpOf accts s) (dumpOf accts s') = parts) :
    acceptedViolation s.ratio s.splitOf ids virt (dumpOf accts s) (dumpOf accts s') = none := by
  obtain ⟨hm, hc⟩ := ctx_not_mem ctx
  obtain ⟨h1, h2, h3, h4, h5, h12⟩ := C.clauses (accts := accts) hm hc
  exact acceptedViolation_none_of h1 h2 h3 h4 h5 (money_clSupply ctx hsup) (money_clAssets ctx hparts)
    (money_clBuyer ctx hparts) (money_clSeller ctx hparts) (money_clBystander ctx hparts)
    (money_clCollector ctx) h12

/-- **`acceptedViolation` is sound for every accepted `MsgMarketSettle`** of every state satisfying the
store invariant: evaluated on the model's own dumps before and after the message — with the message's
ids and no virtual order, as the driver does — no clause fires.  Needed besides `StoreInv`: the dump
covers every order owner and lists each account once (`hn`, `hown` — otherwise `app_supply` /
`app_bystander_changed` see only part of the movement); the seller ratio is admissible (`SellerRatioOk`:
with the fee in another denom `app_assets_exact` / `app_seller_gets_at_least` would misread the ratio fee,
with `fee > price` a seller receiving more than its price nets LESS than `price − ⌈price·fee/price⌉`). -/
theorem settle_app_checker_sound {s s' : KState} {accts : List Addr} {a b : List Nat} {ep : Bool}
    (hI : StoreInv s) (h : s.msgMarketSettle marketName collectorName a b ep = .ok s')
    (hn : (accts ++ [marketName, collectorName]).Nodup) (hown : ∀ o ∈ s.orders, o.owner ∈ accts)
    (hr : SellerRatioOk s.ratio) :
    acceptedViolation s.ratio s.splitOf (a ++ b) none (dumpOf accts s) (dumpOf accts s') = none := by
  obtain ⟨asks, bids, st, ha, hb, hst, ctx, hsup⟩ := settle_moneyCtx hI h hn hown hr
  obtain ⟨asks', bids', st', ha', hb', hst', C⟩ := settle_storeCtx hI h
  obtain ⟨asks'', bids'', st'', ha'', hb'', hst'', hparts⟩ := settle_cParts hI h accts none
  rw [ha] at ha' ha''; rw [hb] at hb' hb''
  simp only [Except.ok.injEq] at ha' hb' ha'' hb''
  subst ha' hb' ha'' hb''
  rw [hst] at hst' hst''
  simp only [Except.ok.injEq] at hst' hst''
  subst hst' hst''
  refine accepted_sound_of C ctx hsup ?_
  rw [hparts]
  simp only [Option.toList_none, List.append_nil]
  apply List.map_congr_left
  intro o _
  unfold settlePart
  cases st.partialLeft <;> rfl

/-- **`acceptedViolation` is sound for every accepted `MsgFillBids`**, evaluated as the driver does: the
message's ids and the seller as the virtual ask `fillVirt true seller ids flat` (it sells the bids'
total assets for their total price and offers the request's flat fee).  Needed besides the hypotheses
of `settle_app_checker_sound`: the seller is in the dump, the flat fee is non-negative (a well-formed
request), and the market is single-denom (`SingleDenom`: the virtual order has ONE asset and ONE price
denom — the keeper itself accepts a `FillBids` over bids of several denoms, which the checker's
`app_assets_exact` would misread). -/
theorem fillBids_app_checker_sound {s s' : KState} {accts : List Addr} {seller : Addr} {ids : List Nat}
    {ta flat : Coins} {ad pd : Denom}
    (hI : StoreInv s) (h : s.msgFillBids marketName collectorName seller ids ta flat = .ok s')
    (hn : (accts ++ [marketName, collectorName]).Nodup) (hown : ∀ o ∈ s.orders, o.owner ∈ accts)
    (hseller : seller ∈ accts) (hr : SellerRatioOk s.ratio) (hsd : SingleDenom s ad pd)
    (hflat : ∀ c ∈ flat, 0 ≤ c.2) :
    acceptedViolation s.ratio s.splitOf ids (fillVirt true seller ids flat (dumpOf accts s))
      (dumpOf accts s) (dumpOf accts s') = none := by
  obtain ⟨orders, virt, hor, hvirt, ctx, hsup⟩ := fillBids_moneyCtx hI h hn hown hseller hr hsd hflat
  obtain ⟨orders', hor', C⟩ := fillBids_storeCtx hI h
  obtain ⟨orders'', hor'', hparts⟩ := fillBids_cParts hI h accts (some virt)
  rw [hor] at hor' hor''
  simp only [Except.ok.injEq] at hor' hor''
  subst hor' hor''
  rw [hvirt]
  exact accepted_sound_of C ctx hsup (by rw [hparts]; rfl)

/-- **`acceptedViolation` is sound for every accepted `MsgFillAsks`**, evaluated as the driver does: the
message's ids and the buyer as the virtual bid `fillVirt false buyer ids fees` (it buys the asks' total
assets for their total price and offers the request's settlement fees). -/
theorem fillAsks_app_checker_sound {s s' : KState} {accts : List Addr} {buyer : Addr} {ids : List Nat}
    {tp : Denom × Int} {fees : Coins} {ad pd : Denom}
    (hI : StoreInv s) (h : s.msgFillAsks marketName collectorName buyer ids tp fees = .ok s')
    (hn : (accts ++ [marketName, collectorName]).Nodup) (hown : ∀ o ∈ s.orders, o.owner ∈ accts)
    (hbuyer : buyer ∈ accts) (hr : SellerRatioOk s.ratio) (hsd : SingleDenom s ad pd)
    (hfees : ∀ c ∈ fees, 0 ≤ c.2) :
    acceptedViolation s.ratio s.splitOf ids (fillVirt false buyer ids fees (dumpOf accts s))
      (dumpOf accts s) (dumpOf accts s') = none := by
  obtain ⟨orders, virt, hor, hvirt, ctx, hsup⟩ := fillAsks_moneyCtx hI h hn hown hbuyer hr hsd hfees
  obtain ⟨orders', hor', C⟩ := fillAsks_storeCtx hI h
  obtain ⟨orders'', hor'', hparts⟩ := fillAsks_cParts hI h accts (some virt)
  rw [hor] at hor' hor''
  simp only [Except.ok.injEq] at hor' hor''
  subst hor' hor''
  rw [hvirt]
  exact accepted_sound_of C ctx hsup (by rw [hparts]; rfl)

/-- non-vacuity of the three soundness theorems: the example state of `C01Examples` (ratio 1000:3 usd,
every order `apple` for `usd`) with its accounts satisfies every hypothesis, and accepts the example
settlement and the example fill -/
example :
    let accts : List Addr := ["S1", "X1", "B1", "B2", "S9"]
    (accts ++ [marketName, collectorName]).Nodup ∧ (∀ o ∈ exState.orders, o.owner ∈ accts) ∧
    (∀ o ∈ exState.orders, o.assetsDenom = "apple" ∧ o.priceDenom = "usd") ∧
    (∀ r, exState.ratio = some r → r.feeDenom = r.priceDenom ∧ 0 < r.priceAmt ∧ 0 ≤ r.feeAmt ∧ r.feeAmt ≤ r.priceAmt) ∧
    (match exState.msgMarketSettle "mkt" "feecol" [1, 2] [11, 12, 13] true with
      | .ok _ => true | .error _ => false) = true ∧
    (match exState.msgFillBids "mkt" "feecol" "S9" [11, 12] [("apple", 10)] [("usd", 2)] with
      | .ok _ => true | .error _ => false) = true := by
  refine ⟨by decide, by decide, by decide, ?_, by decide, by decide⟩
  intro r hr
  have : r = ⟨"usd", 1000, "usd", 3⟩ := by
    have h' : exState.ratio = some ⟨"usd", 1000, "usd", 3⟩ := by decide
    rw [h'] at hr; exact (Option.some.inj hr).symm
  subst this
  decide

end PvProofs.C01
